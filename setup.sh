#!/bin/sh
# Builds the harness once (warms the private build cache). Offline.
cd "$(dirname "$0")" || exit 2
. ./env.sh
mkdir -p .work/gocache evidence replays
(cd mc && go build -o ../.work/bclmc ./cmd/bclmc) || exit 1
# warm the caches of the instrumented and the race-detector builds (both optional here; run.sh rebuilds)
.work/bclmc instrument >/dev/null 2>&1 && (cd mc && go build -overlay ../.work/overlay/overlay.json -o ../.work/bclmc-e1 ./cmd/bclmc) >/dev/null 2>&1
(cd mc && go build -race -o ../.work/racepass ./cmd/racepass) >/dev/null 2>&1
echo "setup ok"
