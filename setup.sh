#!/bin/sh
# Builds the harness once (warms the private build cache). Offline.
cd "$(dirname "$0")" || exit 2
. ./env.sh
mkdir -p .work/gocache evidence replays
(cd mc && go build -o ../.work/bclmc ./cmd/bclmc) || exit 1
echo "setup ok"
