#!/usr/bin/env python3
# Generates MANIFEST.json from the table below (kept in one place so it stays valid).
import json
checks = {
 "C07": dict(cat="model_checking",
   text="For ~14k inputs (corpus programs, every ordered pair of 48 token/separator/lexical-failure spellings incl. multi-byte characters) every partition into reads is enumerated: all 2^(n-1) compositions for n<=13 (thorough 16) plus zero-byte reads, all <=2 (3) cut points for longer inputs, and the real 4096-byte page boundary at every offset; ParseFile on the scripted reader must equal Parse on the whole input (success, byte-identical dump, diagnostics).",
   note="Trusted: scripted FileInput (mc/impl.ScriptFile). Goroutine schedules free-running here; schedule independence is C11/C16's claim.",
   tech="exhaustive enumeration of read partitions (environment answers) with a differential oracle against the unchunked parse", ref="§4 C07"),
 "C08": dict(cat="model_checking",
   text="Corpus programs, single-token deviations (a diagnostic at every token position), failing-operator chains and padded sources crossing varint/page boundaries, re-rendered under all layouts with <=1 (2) deviating gaps over 25 separators; the reference lexer/parser/evaluator predict the byte offset of the first diagnostic, runtime error and warnings; every printed line:col must map back to an offset and quote the source text ending there; the dump's line table must equal the newline offsets; diagnostics are identical under chunking and after dump+load.",
   note="Trusted: reference model mc/ref and its offset<->line:col conversion by newline counting. Only the first compile diagnostic's location is predicted.",
   tech="bounded-exhaustive enumeration of sources x layouts against a reference model of positions", ref="§4 C08"),
 "C18": dict(cat="model_checking",
   text="(1) every argument vector of length <=4 (thorough 5) over a 26-symbol alphabet is parsed by the real parseArgs (working-tree cmd/bcl compiled with a stdin/stdout server added by build overlay) and compared with a reference argument parser written from the usage text; (2) the real binary is run for every subset of {d,t,r,s} x every permutation around the file argument, clusterings, long spellings and `--` x 4 program classes x file by name / '-' / omitted (~2400 process runs quick): stdout must equal the library's output with the same options, status 0/1/2, diagnostics on stderr; plus usage errors, I/O errors and --bdump/--bload round trips.",
   note="Trusted: reference argument parser (from the usage text) and the in-process library run that produces the expected stdout. Level (1) depends on the identifiers parseArgs/parsedArgs.",
   tech="bounded-exhaustive enumeration of argument vectors against a reference parser + exhaustive flag permutations/clusterings on the real binary with a library-differential oracle", ref="§4 C18"),
 "C19": dict(cat="model_checking",
   text="For ~10^5 programs (corpus, scaled, statement sequences) all 8 option combinations x 3 API paths are executed: results, errors and diagnostics must equal the option-free run, program lines must be unchanged after removing lines a strict grammar recognises as listing/trace/statistics, the disassembly must list the independent decoder's instruction starts once each in order, and the trace must equal the reference VM's executed pc sequence with a count equal to xstats.opsRead.",
   note="Trusted: line grammar of the introspection output; programs whose string constants contain a newline are compared on results only.",
   tech="exhaustive enumeration of configurations (8 option sets x 3 paths) over an enumerated program family, reference-VM trace oracle", ref="§4 C19"),
 "C20": dict(cat="model_checking",
   text="For every corpus program the canonical rendering is compared with every re-rendering having <=2 deviating gaps over 25 separators (all whitespace kinds, adjacency where legal, comments with hostile bodies), all-gaps-same renderings, toggled optional ';' and 1-2 redundant parenthesis pairs around each sub-expression (pairs of sites too): code and constants sections (independent decoder), output, blocks, binding, error and first diagnostic must be identical; string bodies with special characters and comments before tokens are checked against the reference evaluator.",
   note="Trusted: reference lexer decides where adjacency keeps the token sequence.",
   tech="bounded-exhaustive enumeration of layout deviations with a same-meaning (differential) oracle", ref="§4 C20"),
 "C09": dict(cat="model_checking",
   text="For every accepted program of the corpus K and the scaled families S (constants, identifiers, block and program names around every varint size class and the 4096-byte buffers, boundary floats and ints): Dump, then LoadProg under every member of a bounded family of read deliveries (whole, 1 byte/read, data+EOF, halves, all fixed sizes 2..17 and 4095..4097, every partition with <=1/2/3 cut points depending on dump size); disassembly, execution results, error positions and the re-dump must be identical, and the independent decoder must recover name and line table. Every dump is also loaded twice with the exported Load method into a Prog that held a larger program. Sub-check dumpfaults: Dump into a destination that fails after k bytes (every k for small dumps, boundaries and strides for 10-60 kB dumps) must return an error.",
   note="Trusted: corpus reaches the size classes named in the property; float constants limited to boundary bit patterns; dumps > 6 kB get the fixed-size deliveries only.",
   tech="exhaustive enumeration of read partitions (environment answers) per corpus program, round-trip + independent-decoder oracle", ref="§4 C09"),
 "C10": dict(cat="model_checking",
   text="For ~10^7 accepted programs (C01-C04 enumerations, K, S incl. 65535-byte jumps and >=241 operand indices) the dump is decoded independently and an explicit-state search over (pc, operand depth, block depth) follows both successors of every JFALSE, checking the structural invariants in every abstract state; the real VM's measured maxima and instruction count are cross-checked against the verifier and the reference VM.",
   note="Trusted: pinned opcode/operand/stack-effect table in mc/bc (DESIGN appendix B). Programs outside the enumerated families are not covered.",
   tech="explicit-state exploration of each compiled program's abstract state space (all control-flow paths), over an exhaustively enumerated program family", ref="§4 C10"),
 "C14": dict(cat="model_checking",
   text="(a) a recorded corpus of 2033 version-1.1 files (pinned-build dumps + hand-assembled files with every opcode, LOOP, NOP, negative/bool/nil constants, minor 0, wide operands) must load and execute to the recorded results; (b) all instruction sequences up to length 4 (thorough 5) over 38 instructions are assembled independently, verified, and executed by the real VM and the reference VM with pinned opcode numbers; (c) every dump of K, S and the C02-C04 enumerations is decoded by the independent decoder, re-encoded byte-identically and re-executed by the reference VM to the same result.",
   note="Trusted: the recording (cross-validated against the reference VM when written) and the pinned tables; a symmetric change of Dump and Load is caught because the decoder/VM in mc/bc do not share code with /repo.",
   tech="corpus replay + bounded-exhaustive instruction-sequence enumeration against a reference VM + independent decoding of every enumerated program's dump", ref="§4 C14"),
 "C01": dict(cat="model_checking",
   text="Every expression of a bounded space (full operator x operand cell table over 25 operands in 4 observation contexts; all trees of depth <=2 over 7 (thorough 10) atoms, 12 binary + 3 prefix operators and embedded assignments; all unparenthesised 4-operand (thorough 5) chains with every prefix pattern; redundant parentheses; nesting to 64) is run through the real Interpret and through an independent reference evaluator on the rendered text; value, dynamic type, print text, side effects, runtime-error class and position must agree.",
   note="Trusted: the reference model mc/ref (precedence-climbing parser + tree-walking evaluator over scope maps, written from README/NOTE/property text). Operand values limited to the alphabet. NaN ordering and block-valued operands excluded as unspecified.",
   tech="bounded-exhaustive program enumeration with a reference-model (differential) oracle; every model trace replayed on the implementation", ref="§4 C01"),
 "C02": dict(cat="model_checking",
   text="All statement sequences up to length 6 (thorough 7) over a 21-symbol alphabet of declarations, assignments (also nested in sub-expressions), reads and block open/close with two names and nesting <=3 are executed by the real Interpret and by the reference evaluator; outputs, fields, compile-diagnostic class/position and runtime-error class/position must agree. Rejected prefixes are absorbing and not extended.",
   note="Trusted: reference model mc/ref. Small-scope: two names, three levels; deeper shadowing only through a scaled family (depth 8).",
   tech="explicit enumeration of operation (statement) sequences up to a depth against a reference model", ref="§4 C02"),
 "C03": dict(cat="model_checking",
   text="All statement sequences up to length 5 (thorough 6) over a 24-symbol alphabet of block definitions (2 types x 4 name forms), closes, field assignments, variables, TYPE/NAME reads and a runtime error, nesting <=3; the []Block returned by the real Interpret (order, type, name, fields with dynamic types, children keys) and the blocks returned alongside a runtime error are compared with the reference evaluator.",
   note="Trusted: reference model mc/ref. Reading/overwriting a closed child through its key is unspecified and excluded.",
   tech="explicit enumeration of statement sequences up to a depth against a reference model", ref="§4 C03"),
 "C04": dict(cat="model_checking",
   text="All toplevel sequences up to length 5 (thorough 6) over 22 symbols: three distinguishable block definitions, bind with every selector x target, binds of other/missing types, every compile-error form, a bind inside a block, a runtime error. Binding kind and exact blocks, error classes, rejection and the warning count are compared with a trivial reference. Sub-checks: results kept from earlier runs stay what they were; every sequence of 2-3 bind statements gives the same blocks, binding, error and warnings along every way of running it (Interpret, Parse+Execute twice, Dump+Load+Execute, with trace/statistics, with a failing log writer).",
   note="Trusted: reference model mc/ref (bind = filter over completed toplevel blocks).",
   tech="explicit enumeration of statement sequences up to a depth against a reference model", ref="§4 C04"),
 "C17": dict(cat="model_checking",
   text="Every token string up to length 4 (thorough 5) over a 29-token vocabulary at toplevel and inside a block, grammar sentences with every single-token delete/insert/replace/transpose, and statement pairs with independent faults: the reference recursive-descent parser accepts iff the real Parse does; rejections give nil results and well-formed diagnostics with the first one at the reference's first offending token; a faulty later statement gets a diagnostic of its own.",
   note="Trusted: the reference grammar (DESIGN appendix A). Only the first diagnostic's location is predicted; later ones are checked for form and for the no-hide rule.",
   tech="bounded-exhaustive enumeration of token strings and single-token mutations against a reference parser", ref="§4 C17"),
 "C05": dict(cat="model_checking",
   text="~7000 struct shapes (<=3 fields of int/float64/string/bool/nested struct, nesting <=2, named and anonymous types, 3 tagging modes incl. a tag equal to another field's name, Name at any index) x every value vector over per-kind alphabets with extremes and escapes x every admissible key spelling (case patterns, an underscore at every position) x struct and slice binding: the value is rendered as BCL text and Unmarshal must reproduce it exactly (floats by bit pattern, pre-filled slices replaced).",
   note="Trusted: the renderer (literals re-checked through the reference lexer's literal rules) and reflect.StructOf for anonymous shapes; named types are a hand-declared set. For >3 leaves value vectors are each-choice + diagonals instead of the full product.",
   tech="bounded-exhaustive enumeration of configurations (struct shapes x values x key spellings) with a round-trip oracle", ref="§4 C05"),
 "C15": dict(cat="model_checking",
   text="~1.1x10^6 (binding, target) pairs built directly as Go values — nil / struct / slice bindings over blocks with <=2 fields (8 keys x 10 values incl. nil, int32, nested and nil-map blocks) crossed with ~1000 targets (nil, non-pointers, nil pointers, every Go kind, embedded / unexported / tagged / colliding fields) — each executed under EVERY map iteration order through the map-order choice point of the rewritten package. An independent matcher decides whether a nil return is justified (every key and the name stored unchanged in a distinct exported assignable field); panics, silent drops, coercions and clobbered slice targets are violations.",
   note="Trusted: the independent key->field matcher in mc/checks/c15.go; blocks with >2 fields and generated structs with >2 fields are outside the bound.",
   tech="exhaustive enumeration of inputs x configurations x map iteration orders (data nondeterminism owned by the explorer) with an invariant + independent-matcher oracle", ref="§4 C15"),
 "C16": dict(cat="model_checking",
   text="Determinism is decided by enumerating the sources of nondeterminism instead of sampling them: every map iteration order inside Bind/Unmarshal (1.6x10^6 orders over the C15 space and colliding/multi-error programs), every goroutine schedule up to a preemption bound for Parse/ParseFile/Interpret on corpus inputs, and every history of <=3 (thorough 4) API calls over a 24-call alphabet (each call must equal its first-call result; Dump unchanged by Execute; results returned earlier are not altered; the caller writes into returned maps), plus long histories (c16.soak: 3 000 to 70 000 calls in one process, each with an input of its own or one Prog executed / re-loaded in place again and again, judged call by call against closed-form expectations, earlier inputs and kept Progs re-visited at every power of two). Each entry point leaves the spare slots of the caller's option slice alone. Fresh-process digests under different GOMAXPROCS are a supplementary sampling pass.",
   note="Trusted: hash seeds are observable only through map order and CPU count only through scheduling; the instrumenter turns every range-over-map of package bcl into a choice point.",
   tech="exhaustive enumeration of map orders, schedules (preemption-bounded) and call histories (explicit-state, depth-bounded) on the real code", ref="§4 C16"),
 "C06": dict(cat="exploration",
   text="Bounded-exhaustive input enumeration with an invariant oracle on the real code: every byte string up to length 4 (thorough 5) over one representative per lexer character class in three contexts, every token string up to length 3 (thorough 4) over a 47-token vocabulary incl. malformed literals, every single-token and single-byte deviation of ~1.9k corpus programs, and scaled programs at each implementation limit; in-memory and file APIs; 6 programs unmarshalled into every target value of the C15 table, and every ordered pair of same-named struct types in a fresh process. Worker processes make a panic in a library goroutine attributable to one input.",
   note="Assumes: the character-class representatives cover the lexer's case analysis; hang = no return within 60 s; inputs whose result needs >2^20 bytes of repeated string are excluded by the property (decided by the reference model).",
   tech="bounded-exhaustive enumeration of inputs (bytes, tokens, deviations, limit-scaled programs) with a no-crash/no-hang invariant, process-isolated", ref="§4 C06"),
 "C11": dict(cat="model_checking",
   text="Stateless model checking of the real ParseFile/InterpretFile/UnmarshalFile pipeline under a controlled scheduler: package bcl is rewritten at check time (go build -overlay) so that channel operations, go, select, close, locks go through mc/vsched; for 10 inputs (valid / early+late syntax error / early+late lexical failure) x every reader script of a bounded family (1-3 chunks, <=2 non-default answers: zero-byte read, data+EOF, error, data+error) x token-buffer sizes {10,1,2} (plus a byte order mark alone in a read, 40 syntax errors, a faulty token after ';', read errors of five kinds, forty zero-byte reads in a row, unbindable targets), ALL schedules with <=1 (thorough 2-3) preemptions are executed (~8x10^5 quick). Every execution must reach quiescence with the call returned, no goroutine left, Close called once, the delivered read error returned, <=3 reads after a lexical failure, and the in-memory outcome.",
   note="Trusted: the scheduler's channel/select model (mc/vsched, unit-tested) and the instrumenter; code between visible operations runs atomically (sound if race-free, which C12 checks). Deadlock/leak are decided exactly by the scheduler, no clocks.",
   tech="stateless model checking: exhaustive exploration of goroutine schedules up to a preemption bound x fault-injecting reader scripts, on the real code", ref="§4 C11"),
 "C12": dict(cat="model_checking",
   text="Happens-before race detection on every schedule up to a preemption bound (delay bound for the 7-9 goroutine harnesses) of the instrumented real code: accesses to package variables, fields of bcl structs and captured locals are logged and checked with vector clocks that advance only on the program's own synchronisation. Harnesses: the pipeline on multi-chunk inputs with early errors, and pairs of concurrent callers (Parse, ParseFile, Interpret, Execute||Execute and Execute||Dump on a shared Prog, Bind); each call's result must also equal its sequential result. Every harness is explored a second time in a process of its own that has done nothing before (state built on first use is then built inside a scheduled execution). A free-running Go race-detector pass over the same bodies is supplementary (sampling).",
   note="Trusted: instrumenter coverage (element accesses are attributed to their holder; accesses inside the standard library are not logged) and the vector-clock edges of mc/vsched.",
   tech="stateless model checking with a vector-clock race oracle over all schedules up to a preemption/delay bound", ref="§4 C12"),
 "C13": dict(cat="fault_enumeration",
   text="Every cut point (crash point of an interrupted writer) of the dump of every accepted corpus program is loaded by the real LoadProg (whole, one byte per read, with the introspection options, through a reader that also has Close and Name, and followed by a retry on the same Prog) and must give an error; all 2^16 magic values and version pairs are enumerated, also on a stream that stays open after the header. Exhaustive over the stated space, no sampling.",
   note="Trusted: the corpus K∪S reaches every section/constant kind and size class; crash = truncation at a byte boundary. Independent decoder (mc/bc) is used only to locate section boundaries.",
   tech="exhaustive crash-point enumeration (every prefix of every dump) on the real loader", ref="§4 C13"),
}

# additions of round 6 of the seeded changes (DESIGN.md 10.6), appended to the level texts
ROUND6 = {
 "C01": "Also: float literals of 1..21 significant digits in every form and int literals of every length in three bases; template-like strings; every compared run is followed by a later unrelated call after which its blocks, binding and error text must be unchanged.",
 "C02": "Also a second, focused transition system (short-circuit operands that assign, reads behind assignments, dead operands that mention a name first) at top level, in blocks and behind 15..500 live locals.",
 "C03": "Every compared run is followed by a later unrelated call after which its blocks, binding and error text must be unchanged.",
 "C04": "Also 4..1000 bind statements in one run, Load into Progs that ran other bind programs, a bind right behind every two-byte slot operand.",
 "C06": "Also single lines / lexical items of 100 KiB..1.1 MiB through the in-memory and file entry points.",
 "C07": "Also several multi-page lexical items in a row, literals cut by a page boundary at every offset 4080..4100, inputs of 17 and 33 MiB.",
 "C08": "Also a byte order mark in front, Unicode separators inside comments and strings, and: an error returned before Load into the same Prog keeps its text.",
 "C09": "Also every size in between the boundaries (dense families: lengths 0..1300, counts 1..330, every int constant 0..70000), Load into a Prog that held and ran a renamed twin of the program, real pipes and positioned files / readers as load sources.",
 "C11": "Also an input whose Close fails, syntax errors beyond line 64 / 128 with line ends still arriving, a regular file positioned behind a header.",
 "C12": "Also lexical oddities right behind a syntax error in the pipeline and two callers running into the same limit at different places.",
 "C13": "Also bad headers in front of 4..70 KiB more bytes through a file-like reader and a real file.",
 "C14": "Also c14.longloop: a hand-assembled countdown loop of up to 15 million rounds (thorough 250 million) against the closed form.",
 "C15": "Also c15.keys: one-byte key variants at every position, keys and field names of every length 1..80, nesting 1..40 levels, structs of 1..50 fields with tags.",
 "C16": "The number of CPUs the library is told (runtime.GOMAXPROCS / NumCPU) is an enumerated answer of the harness: big slice bindings with two faulty blocks under every CPU answer and schedule.",
 "C17": "Also a faulty statement behind 2..1000 faulty ones (it still gets its own diagnostic).",
 "C18": "Also standard input of every kind with FILE omitted, BFILE /dev/null, BFILE names that begin with '-'.",
 "C20": "Also comments ending in backslashes before every kind of line end.",
}
for _k, _v in ROUND6.items():
    checks[_k]["text"] += " " + _v

na = [
]
import json as _j
_all=[_j.loads(l)["id"] for l in open("properties.jsonl")]
for _id in _all:
    if _id not in checks and not any(x["property_id"]==_id for x in na):
        na.append({"property_id": _id, "reason": "check planned in DESIGN.md but not built yet at this commit (work in progress); not a limit of the technique"})
m = {
 "version": 1,
 "setup_cmd": "./setup.sh",
 "hooks": {"guard": "verif", "enable": "none needed in /repo: instrumentation is generated at check time into a `go build -overlay` (see DESIGN.md §2 E1); the harness uses the public API only",
           "baseline_off_cmd": "cd /repo && GOFLAGS=-mod=mod GOPROXY=off GOSUMDB=off go test -vet=off -count=1 ./...",
           "source_commits": [], "add_only": True},
 "engines": [
   {"name": "bclmc", "path": "mc", "serves_properties": sorted(checks), "kind_free_text": "hand-written explorer (no off-the-shelf Go model checker in the image): bounded-exhaustive: process-sharded enumerators, reference models (mc/ref, mc/bc), controlled scheduler (mc/vsched)"},
 ],
 "checks": [],
 "not_applicable": na,
 "notes": "All checks: ./run.sh <id> quick|thorough rebuilds the harness against /repo's working tree. Replay: ./run.sh replay <file>. Known findings: KNOWN_FINDINGS.txt.",
}
for cid in sorted(checks):
    c = checks[cid]
    m["checks"].append({
      "property_id": cid,
      "quick_cmd": f"./run.sh {cid} quick",
      "thorough_cmd": f"./run.sh {cid} thorough",
      "evidence_file": f"/verif/evidence/{cid}.json",
      "replay_cmd_template": "./run.sh replay {path}",
      "engine": "bclmc",
      "level_claimed": {"category": c["cat"], "text": c["text"], "design_ref": c["ref"]},
      "level_note": c["note"],
      "technique": c["tech"],
    })
json.dump(m, open("MANIFEST.json", "w"), indent=1)
print("checks:", len(m["checks"]), "not_applicable:", len(na))
