#!/usr/bin/env python3
# Generates MANIFEST.json from the table below (kept in one place so it stays valid).
import json
checks = {
 "C06": dict(cat="exploration",
   text="Bounded-exhaustive input enumeration with an invariant oracle on the real code: every byte string up to length 4 (thorough 5) over one representative per lexer character class in three contexts, every token string up to length 3 (thorough 4) over a 47-token vocabulary incl. malformed literals, every single-token and single-byte deviation of ~1.9k corpus programs, and scaled programs at each implementation limit; in-memory and file APIs. Worker processes make a panic in a library goroutine attributable to one input.",
   note="Assumes: the character-class representatives cover the lexer's case analysis; hang = no return within 60 s; inputs whose result needs >2^20 bytes of repeated string are excluded by the property (decided by the reference model).",
   tech="bounded-exhaustive enumeration of inputs (bytes, tokens, deviations, limit-scaled programs) with a no-crash/no-hang invariant, process-isolated", ref="§4 C06"),
 "C13": dict(cat="fault_enumeration",
   text="Every cut point (crash point of an interrupted writer) of the dump of every accepted corpus program is loaded by the real LoadProg, whole and one byte per read, and must give an error; all 2^16 magic values and version pairs are enumerated. Exhaustive over the stated space, no sampling.",
   note="Trusted: the corpus K∪S reaches every section/constant kind and size class; crash = truncation at a byte boundary. Independent decoder (mc/bc) is used only to locate section boundaries.",
   tech="exhaustive crash-point enumeration (every prefix of every dump) on the real loader", ref="§4 C13"),
}
na = [
]
import json as _j
_all=[_j.loads(l)["id"] for l in open("properties.jsonl")]
for _id in _all:
    if _id not in checks and not any(x["property_id"]==_id for x in na):
        na.append({"property_id": _id, "reason": "check planned in DESIGN.md but not built yet at this commit (work in progress); not a limit of the technique"})
m = {
 "version": 1,
 "setup_cmd": "./setup.sh",
 "hooks": {"guard": "verif", "enable": "none needed in /repo: instrumentation is generated at check time into a `go build -overlay` (see DESIGN.md §2 E1); the harness uses the public API only",
           "baseline_off_cmd": "cd /repo && GOFLAGS=-mod=mod GOPROXY=off GOSUMDB=off go test -vet=off -count=1 ./...",
           "source_commits": [], "add_only": True},
 "engines": [
   {"name": "bclmc", "path": "mc", "serves_properties": sorted(checks), "kind_free_text": "hand-written bounded-exhaustive explorer: process-sharded enumerators, reference models (mc/ref, mc/bc), controlled scheduler (mc/vsched)"},
 ],
 "checks": [],
 "not_applicable": na,
 "notes": "All checks: ./run.sh <id> quick|thorough rebuilds the harness against /repo's working tree. Replay: ./run.sh replay <file>. Known findings: KNOWN_FINDINGS.txt.",
}
for cid in sorted(checks):
    c = checks[cid]
    m["checks"].append({
      "property_id": cid,
      "quick_cmd": f"./run.sh {cid} quick",
      "thorough_cmd": f"./run.sh {cid} thorough",
      "evidence_file": f"/verif/evidence/{cid}.json",
      "replay_cmd_template": "./run.sh replay {path}",
      "engine": "bclmc",
      "level_claimed": {"category": c["cat"], "text": c["text"], "design_ref": c["ref"]},
      "level_note": c["note"],
      "technique": c["tech"],
    })
json.dump(m, open("MANIFEST.json", "w"), indent=1)
print("checks:", len(m["checks"]), "not_applicable:", len(na))
