#!/bin/sh
# usage: run.sh <Cxx> quick|thorough   |   run.sh replay <file>
# Rebuilds the harness against the repository's current working tree (/repo), then runs the check.
# Checks that need the controlled scheduler (C11 C12 C15 C16) run a second binary built
# with `go build -overlay`: package bcl is rewritten at this point from the working tree
# (channel ops, go, select, map range, shared accesses -> mc/vsched); the repository is untouched.
#
# Development aid only (never used by the registered commands): VERIF_REPO=<dir> checks another
# checkout (a scratch worktree with a seeded change), VERIF_WORK / VERIF_OUT keep its build
# output and evidence apart, so several such runs can go in parallel while /repo stays clean.
cd "$(dirname "$0")" || exit 2
. ./env.sh
REPO="${VERIF_REPO:-/repo}"
WORK="${VERIF_WORK:-$VERIF_DIR/.work}"
export VERIF_REPO="$REPO" VERIF_WORK="$WORK"
mkdir -p "$WORK" "$VERIF_DIR/.work/gocache"
MODFLAG=""
if [ "$REPO" != /repo ]; then
  sed "s#=> /repo#=> $REPO#" mc/go.mod > "$WORK/go.alt.mod"
  cp mc/go.sum "$WORK/go.alt.sum"
  MODFLAG="-modfile=$WORK/go.alt.mod"
fi
build_plain() {
  if ! (cd mc && go build $MODFLAG -o "$WORK/bclmc" ./cmd/bclmc) >"$WORK/build.log" 2>&1; then
    echo "INFRA: harness build failed" >&2
    cat "$WORK/build.log" >&2
    exit 2
  fi
}
build_e1() {
  if ! "$WORK/bclmc" instrument >"$WORK/instr.log" 2>&1; then
    echo "INFRA: instrumenter failed" >&2
    cat "$WORK/instr.log" >&2
    exit 2
  fi
  if ! (cd mc && go build $MODFLAG -overlay "$WORK/overlay/overlay.json" -o "$WORK/bclmc-e1" ./cmd/bclmc) >"$WORK/build-e1.log" 2>&1; then
    echo "INFRA: instrumented build failed" >&2
    cat "$WORK/build-e1.log" >&2
    exit 2
  fi
}
build_racepass() {
  # supplementary free-running pass for C12 (uninstrumented, Go race detector); optional
  (cd mc && go build $MODFLAG -race -o "$WORK/racepass" ./cmd/racepass) >"$WORK/build-race.log" 2>&1 || rm -f "$WORK/racepass"
}
build_cli() {
  # the real command-line tool from the working tree, and a variant with an argument server added by overlay
  if ! (cd "$REPO" && go build -o "$WORK/bcl-cli" ./cmd/bcl) >"$WORK/build-cli.log" 2>&1; then
    echo "INFRA: cmd/bcl does not build" >&2; cat "$WORK/build-cli.log" >&2; exit 2
  fi
  ov=$("$WORK/bclmc" cli-overlay) && (cd "$REPO" && go build -overlay "$ov" -o "$WORK/bcl-argv" ./cmd/bcl) >"$WORK/build-argv.log" 2>&1 || rm -f "$WORK/bcl-argv"
}
needs_e1() {
  case "$1" in C11|C12|C15|C16) return 0 ;; esac
  return 1
}
build_plain
case "$1" in
  replay)
    id=$(basename "$2" | cut -d- -f1)
    if [ "$id" = C18 ]; then build_cli; fi
    if needs_e1 "$id"; then build_e1; exec "$WORK/bclmc-e1" replay "$2"; fi
    exec "$WORK/bclmc" replay "$2" ;;
  *)
    if [ "$1" = C12 ]; then build_racepass; fi
    if [ "$1" = C18 ]; then build_cli; fi
    if needs_e1 "$1"; then build_e1; exec "$WORK/bclmc-e1" check "$1" "${2:-quick}"; fi
    exec "$WORK/bclmc" check "$1" "${2:-quick}" ;;
esac
