#!/bin/sh
# usage: run.sh <Cxx> quick|thorough   |   run.sh replay <file>
# Rebuilds the harness against /repo's current working tree, then runs the check.
cd "$(dirname "$0")" || exit 2
. ./env.sh
mkdir -p .work/gocache
if ! (cd mc && go build -o ../.work/bclmc ./cmd/bclmc) >.work/build.log 2>&1; then
  echo "INFRA: harness build failed" >&2
  cat .work/build.log >&2
  exit 2
fi
case "$1" in
  replay) exec .work/bclmc replay "$2" ;;
  *) exec .work/bclmc check "$1" "${2:-quick}" ;;
esac
