#!/bin/sh
# usage: run.sh <Cxx> quick|thorough   |   run.sh replay <file>
# Rebuilds the harness against /repo's current working tree, then runs the check.
# Checks that need the controlled scheduler (C11 C12 C15 C16) run a second binary built
# with `go build -overlay`: package bcl is rewritten at this point from /repo's working
# tree (channel ops, go, select, map range, shared accesses -> mc/vsched); /repo is untouched.
cd "$(dirname "$0")" || exit 2
. ./env.sh
mkdir -p .work/gocache
build_plain() {
  if ! (cd mc && go build -o ../.work/bclmc ./cmd/bclmc) >.work/build.log 2>&1; then
    echo "INFRA: harness build failed" >&2
    cat .work/build.log >&2
    exit 2
  fi
}
build_e1() {
  if ! .work/bclmc instrument >.work/instr.log 2>&1; then
    echo "INFRA: instrumenter failed" >&2
    cat .work/instr.log >&2
    exit 2
  fi
  if ! (cd mc && go build -overlay ../.work/overlay/overlay.json -o ../.work/bclmc-e1 ./cmd/bclmc) >.work/build-e1.log 2>&1; then
    echo "INFRA: instrumented build failed" >&2
    cat .work/build-e1.log >&2
    exit 2
  fi
}
build_racepass() {
  # supplementary free-running pass for C12 (uninstrumented, Go race detector); optional
  (cd mc && go build -race -o ../.work/racepass ./cmd/racepass) >.work/build-race.log 2>&1 || rm -f .work/racepass
}
build_cli() {
  # the real command-line tool from the working tree, and a variant with an argument server added by overlay
  if ! (cd /repo && go build -o "$VERIF_DIR/.work/bcl-cli" ./cmd/bcl) >.work/build-cli.log 2>&1; then
    echo "INFRA: cmd/bcl does not build" >&2; cat .work/build-cli.log >&2; exit 2
  fi
  ov=$(.work/bclmc cli-overlay) && (cd /repo && go build -overlay "$ov" -o "$VERIF_DIR/.work/bcl-argv" ./cmd/bcl) >.work/build-argv.log 2>&1 || rm -f .work/bcl-argv
}
needs_e1() {
  case "$1" in C11|C12|C15|C16) return 0 ;; esac
  return 1
}
build_plain
case "$1" in
  replay)
    id=$(basename "$2" | cut -d- -f1)
    if [ "$id" = C18 ]; then build_cli; fi
    if needs_e1 "$id"; then build_e1; exec .work/bclmc-e1 replay "$2"; fi
    exec .work/bclmc replay "$2" ;;
  *)
    if [ "$1" = C12 ]; then build_racepass; fi
    if [ "$1" = C18 ]; then build_cli; fi
    if needs_e1 "$1"; then build_e1; exec .work/bclmc-e1 check "$1" "${2:-quick}"; fi
    exec .work/bclmc check "$1" "${2:-quick}" ;;
esac
