package checks

import (
	"fmt"
	"reflect"
	"strings"

	"github.com/wkhere/bcl"

	"verif/mc/fw"
)

// c15.keys — what the (binding x target) table of c15.bind does not scale to: keys that differ from a field name in ONE
// BYTE (every position, every bit-flip that folding by arithmetic could confuse), keys and field names of every length
// 1..80 (thorough 300) with exact / one-typo / longer / shorter spellings, and nested blocks down to 40 levels into
// equally deep targets, valid and faulty at the innermost level. The independent matcher (counterpart) decides what a
// nil return must have stored; everything else must be an error; nothing may panic.
type c15KeyCase struct {
	Kind string `json:"kind"`
	N    int    `json:"n"`
}

func (c *c15KeyCase) Key() string { return fmt.Sprintf("%s|%d", c.Kind, c.N) }

func c15BindOne(t reflect.Type, key string, val any) (ptr reflect.Value, err error) {
	ptr = reflect.New(t)
	err = bcl.Bind(ptr.Interface(), bcl.StructBinding{Value: bcl.Block{Type: "t", Fields: map[string]any{key: val}}})
	return
}

// judge: a nil return needs a counterpart holding the value; no counterpart needs an error.
func c15Judge(t reflect.Type, key string, val int) *fw.Fail {
	ptr, err := c15BindOne(t, key, val)
	cp, ok := counterpart(t, key)
	if !ok {
		if err == nil {
			return fw.Failf(fmt.Sprintf("key %q designates no field of %v: Bind reports an error", key, t), "nil; target now %s", fw.Trunc(fmt.Sprintf("%+v", ptr.Elem().Interface()), 200))
		}
		fw.TallyOutcome("error")
		return nil
	}
	if err != nil {
		return fw.Failf(fmt.Sprintf("key %q designates field %s of %v: stored", key, cp.Name, t), "error: %v", err)
	}
	if got := ptr.Elem().FieldByIndex(cp.Index); got.Kind() != reflect.Int || got.Int() != int64(val) {
		return fw.Failf(fmt.Sprintf("key %q stored in field %s", key, cp.Name), "field holds %v; target %s", got, fw.Trunc(fmt.Sprintf("%+v", ptr.Elem().Interface()), 200))
	}
	fw.TallyOutcome("stored")
	return nil
}

var subC15Keys = &fw.Sub{Name: "c15.keys", New: func() fw.Case { return &c15KeyCase{} }, Exec: func(cs fw.Case) *fw.Fail {
	c := cs.(*c15KeyCase)
	return fw.Guard(func() *fw.Fail {
		intT := reflect.TypeOf(0)
		switch c.Kind {
		case "byte-variants":
			names := []string{"Port1", "Ab", "X9", "FooBar", "Żółw2"}
			var fs []reflect.StructField
			for _, n := range names {
				fs = append(fs, reflect.StructField{Name: n, Type: intT})
			}
			t := reflect.StructOf(fs)
			n := 0
			for _, name := range names {
				for _, base := range []string{name, strings.ToLower(name), strings.ToUpper(name), strings.ReplaceAll(strings.ToLower(name), "_", "")} {
					for i := 0; i < len(base); i++ {
						b := base[i]
						for _, v := range []byte{b ^ 0x20, b | 0x20, b &^ 0x20, b ^ 0x10, b ^ 0x40, b ^ 0x80, b ^ 0x01, 0x7f, 0x00, '_', ' ', b} {
							key := base[:i] + string([]byte{v}) + base[i+1:]
							if f := c15Judge(t, key, 40+i); f != nil {
								return f
							}
							n++
						}
					}
					for _, extra := range []string{"\x11", "\x7f", " ", "_", "\x00", "1", "\x5f\x5f"} {
						for _, key := range []string{base + extra, extra + base} {
							if f := c15Judge(t, key, 7); f != nil {
								return f
							}
							n++
						}
					}
				}
			}
			fw.Tally("keys_judged", int64(n))
		case "long-keys":
			// field names of length L next to a sibling of the same length; keys: exact, lower case, one typo, longer, shorter
			L := c.N
			fa, fb := "F"+strings.Repeat("a", L-1), "G"+strings.Repeat("a", L-1)
			t := reflect.StructOf([]reflect.StructField{{Name: fa, Type: intT}, {Name: fb, Type: intT}, {Name: "Name", Type: reflect.TypeOf("")}})
			low := strings.ToLower(fa)
			keys := []string{fa, low, low + "a", low + "aaa", "x" + low, strings.Repeat("z", L), strings.Repeat("z", L+1)}
			if L > 1 {
				keys = append(keys, low[:L-1], low[:L-1]+"b", low[:L/2]+"q"+low[L/2+1:], "f"+strings.Repeat("a", L-2)+"_")
			}
			for i, key := range keys {
				if f := c15Judge(t, key, i+1); f != nil {
					return f
				}
			}
			fw.Tally("keys_judged", int64(len(keys)))
		case "wide-struct":
			// W fields, every other one tagged; each is addressed by its tag, by its Go name in lower case and by its Go name
			W := c.N
			var fs []reflect.StructField
			for i := 0; i < W; i++ {
				f := reflect.StructField{Name: fmt.Sprintf("Field%d", i), Type: intT}
				if i%2 == 1 {
					f.Tag = reflect.StructTag(fmt.Sprintf(`bcl:"k%d"`, i))
				}
				fs = append(fs, f)
			}
			t := reflect.StructOf(fs)
			for i := 0; i < W; i++ {
				for _, key := range []string{fmt.Sprintf("field%d", i), fmt.Sprintf("Field%d", i), fmt.Sprintf("k%d", i), fmt.Sprintf("field_%d", i), fmt.Sprintf("field%d", i+W)} {
					if f := c15Judge(t, key, i+1); f != nil {
						return f
					}
				}
			}
			fw.Tally("keys_judged", int64(5*W))
		case "deep-nesting":
			// d levels of nested blocks into d levels of nested structs; the innermost key is right / has no counterpart / holds a string
			d := c.N
			t := reflect.StructOf([]reflect.StructField{{Name: "X", Type: intT}})
			for i := 0; i < d; i++ {
				t = reflect.StructOf([]reflect.StructField{{Name: "In", Type: t}})
			}
			for _, variant := range []string{"ok", "nokey", "badtype"} {
				inner := bcl.Block{Type: "in", Fields: map[string]any{"x": 1}}
				switch variant {
				case "nokey":
					inner.Fields = map[string]any{"y": 1}
				case "badtype":
					inner.Fields = map[string]any{"x": "s"}
				}
				for i := 1; i < d; i++ {
					inner = bcl.Block{Type: "in", Fields: map[string]any{"in": inner}}
				}
				ptr := reflect.New(t)
				err := bcl.Bind(ptr.Interface(), bcl.StructBinding{Value: bcl.Block{Type: "t", Fields: map[string]any{"in": inner}}})
				if variant == "ok" {
					v := ptr.Elem()
					for i := 0; i < d; i++ {
						v = v.Field(0)
					}
					if err != nil || v.Field(0).Int() != 1 {
						return fw.Failf(fmt.Sprintf("%d levels of nested blocks are stored in %d levels of nested structs", d, d), "err=%v innermost X=%d", err, v.Field(0).Int())
					}
					fw.TallyOutcome("stored")
				} else if err == nil {
					return fw.Failf(fmt.Sprintf("a faulty innermost block (%s) at depth %d is an error", variant, d), "nil")
				} else {
					fw.TallyOutcome("error")
				}
			}
		}
		fw.TallyNontrivial()
		return nil
	})
}}

func c15KeysCases(thorough bool) []*c15KeyCase {
	cs := []*c15KeyCase{{Kind: "byte-variants"}}
	maxL, maxD := 80, 40
	if thorough {
		maxL, maxD = 300, 120
	}
	for L := 1; L <= maxL; L++ {
		cs = append(cs, &c15KeyCase{Kind: "long-keys", N: L})
	}
	for w := 1; w <= maxD+10; w++ {
		cs = append(cs, &c15KeyCase{Kind: "wide-struct", N: w})
	}
	for d := 1; d <= maxD; d++ {
		cs = append(cs, &c15KeyCase{Kind: "deep-nesting", N: d})
	}
	return cs
}
