package checks

import (
	"bytes"
	"fmt"
	"os"
	"os/exec"
	"strings"

	"github.com/wkhere/bcl"

	"verif/mc/fw"
	"verif/mc/gen"
	"verif/mc/impl"
	"verif/mc/ref"
)

// C06 — every input ends in a result or an error, never a crash or a hang.

type c06Case struct {
	Name string `json:"name,omitempty"` // scaled family member (key) or ""
	Src  string `json:"src"`
	File int    `json:"file"` // 0: in-memory API; k>0: file API delivering k bytes per read (1<<30: all at once); k<0: -k bytes per read, the last read returns its data together with io.EOF
}

func (c *c06Case) Key() string {
	if c.Name != "" {
		return fmt.Sprintf("%s|%d", c.Name, c.File)
	}
	return fmt.Sprintf("%q|%d", c.Src, c.File)
}

type c06Target struct {
	Name string
	X    int
	Y    string
	I    int
}

// excluded reports whether the input's legitimate result would exhaust memory
// (string repetition beyond 2^20 bytes), decided by the reference model.
func excluded(src string) bool {
	if !strings.Contains(src, "*") {
		return false
	}
	prog, diag := ref.Parse(src)
	if diag != nil {
		return false
	}
	res := ref.Run(prog)
	return strings.HasPrefix(res.Unspecified, "repetition")
}

func c06Exec(cs fw.Case) *fw.Fail {
	c := cs.(*c06Case)
	if excluded(c.Src) {
		fw.TallyOutcome("excluded-by-property")
		return nil
	}
	const exp = "returns a result or a non-nil error; no panic"
	if c.File == 0 {
		return fw.Guard(func() *fw.Fail {
			p := impl.Parse(c.Src)
			if p.Err == nil && p.Prog == nil {
				return fw.Failf(exp, "Parse returned nil prog and nil error")
			}
			r := impl.Interpret(c.Src)
			if (p.Err == nil) != (r.Err == nil || strings.HasPrefix(r.ErrText(), "runtime error") || strings.HasPrefix(r.ErrText(), "internal error")) {
				return fw.Failf("Interpret fails to parse iff Parse does", "Parse err=%v, Interpret err=%v", p.Err, r.Err)
			}
			var t c06Target
			var out, log bytes.Buffer
			uerr := bcl.Unmarshal([]byte(c.Src), &t, bcl.OptOutput(&out), bcl.OptLogger(&log))
			// a slice target that already holds an element (of a type the blocks may or may not fit)
			if strings.Contains(c.Src, "bind") {
				ts := []c06Target{{Name: "old"}}
				bcl.Unmarshal([]byte(c.Src), &ts, bcl.OptOutput(&out), bcl.OptLogger(&log))
				ta := make([]struct{ X, I int }, 1, 1)
				bcl.Unmarshal([]byte(c.Src), &ta, bcl.OptOutput(&out), bcl.OptLogger(&log))
			}
			if r.Err != nil && uerr == nil {
				return fw.Failf("Unmarshal reports the error Interpret reports", "Interpret err=%v, Unmarshal nil", r.Err)
			}
			switch {
			case p.Err != nil:
				fw.TallyOutcome("parse-error")
			case r.Err != nil:
				fw.TallyOutcome("runtime-error")
			case uerr != nil:
				fw.TallyOutcome("ok")
			default:
				fw.TallyOutcome("ok")
				fw.TallyOutcome("ok-and-bound")
			}
			return nil
		})
	}
	// file variants: a panic in a library goroutine kills this process; the parent attributes it
	return fw.Guard(func() *fw.Fail {
		mk := func() *impl.ScriptFile {
			var script []impl.Answer
			k := c.File
			if k < 0 {
				k = -k
			}
			if k < 1<<30 {
				for n := 0; n < len(c.Src); n += k {
					script = append(script, impl.Answer{N: k})
				}
			}
			if c.File < 0 && len(script) > 0 {
				script[len(script)-1].Err = "EOF"
			}
			return impl.NewScriptFile(c.Src, script)
		}
		f := mk()
		p := impl.ParseFile(f)
		if p.Err == nil && p.Prog == nil {
			return fw.Failf(exp, "ParseFile returned nil prog and nil error")
		}
		r := impl.InterpretFile(mk())
		var t c06Target
		var out, log bytes.Buffer
		uerr := bcl.UnmarshalFile(mk(), &t, bcl.OptOutput(&out), bcl.OptLogger(&log))
		if r.Err != nil && uerr == nil {
			return fw.Failf("UnmarshalFile reports the error InterpretFile reports", "InterpretFile err=%v, UnmarshalFile nil", r.Err)
		}
		switch {
		case p.Err != nil:
			fw.TallyOutcome("file-parse-error")
		case r.Err != nil:
			fw.TallyOutcome("file-runtime-error")
		default:
			fw.TallyOutcome("file-ok")
		}
		return nil
	})
}

// c06.targets: Unmarshal / UnmarshalFile of a few programs into every target value of the C15 target table, in
// two orders (state kept between calls, e.g. per-type caches, is thereby built by a different type first).
type c06TgtCase struct {
	Prog   int  `json:"prog"`
	Target int  `json:"target"`
	Rev    bool `json:"rev"`
}

func (c *c06TgtCase) Key() string { return fmt.Sprintf("%d|%d|%v", c.Prog, c.Target, c.Rev) }

var c06TargetProgs = []string{
	"def t { x = 1 }\nbind t -> struct",
	"def t \"nm\" { x = 1; y = 2.5; foo_bar = \"s\"; def in { x = 2 } }\nbind t -> struct",
	"def t { x = 1 }\ndef t \"b\" { x = 2; def in \"p\" { x = 3 } }\nbind t:all -> slice",
	"def t { x = nil; emb = 1; def emb { x = 1 } }\nbind t:first -> slice",
	"def t { f0 = 1; f1 = 2; f2 = 3; f3 = 4; f4 = 5; f5 = 6; f6 = 7; f7 = 8; def in { f0 = 1; f1 = 2; f2 = 3; f3 = 4; f4 = 5; f5 = 6; f6 = 7; f7 = 8; f8 = 9 } }\nbind t -> struct",
	"print 1",
}

var subC06Targets = &fw.Sub{Name: "c06.targets", New: func() fw.Case { return &c06TgtCase{} }, Exec: func(cs fw.Case) *fw.Fail {
	c := cs.(*c06TgtCase)
	ts := c15Targets()
	// the neighbours in the table are bound too, before or after, so that the call under test is not always the first
	idx := []int{c.Target, (c.Target + 1) % len(ts), (c.Target + len(ts) - 1) % len(ts)}
	if c.Rev {
		idx[0], idx[2] = idx[2], idx[0]
	}
	src := c06TargetProgs[c.Prog]
	for _, i := range idx {
		for _, file := range []bool{false, true} {
			var pan any
			func() {
				defer func() { pan = recover() }()
				var out, log bytes.Buffer
				if file {
					bcl.UnmarshalFile(impl.NewScriptFile(src, impl.Chunks(len(src)/2)), ts[i].mk(), bcl.OptOutput(&out), bcl.OptLogger(&log))
				} else {
					bcl.Unmarshal([]byte(src), ts[i].mk(), bcl.OptOutput(&out), bcl.OptLogger(&log))
				}
			}()
			if pan != nil {
				return fw.Failf("Unmarshal returns a result or an error for every target", "target %s (file=%v): panic: %v", ts[i].name, file, pan)
			}
		}
	}
	fw.TallyOutcome("targets-no-panic")
	fw.TallyNontrivial()
	return nil
}}

// c06.coldpairs: two Unmarshal calls in a process that has done nothing before, into two struct types that print
// the same name ("checks.T": the package-level one and the ones declared inside functions) in every order: whatever the
// library remembers about a type from the first call must not make the second call panic.
type c06Cold struct {
	Prog int `json:"prog"`
	I    int `json:"i"`
	J    int `json:"j"`
}

func (c *c06Cold) Key() string { return fmt.Sprintf("%d|%d|%d", c.Prog, c.I, c.J) }

func c06SameNameTargets() []int {
	var idx []int
	for i, t := range c15Targets() {
		if strings.HasPrefix(t.name, "*T{") || strings.HasPrefix(t.name, "*[]T{") || t.name == "*T" || t.name == "*[]T" {
			idx = append(idx, i)
		}
	}
	return idx
}

var subC06Cold = &fw.Sub{Name: "c06.coldpairs", New: func() fw.Case { return &c06Cold{} }, Exec: func(cs fw.Case) *fw.Fail {
	c := cs.(*c06Cold)
	cmd := exec.Command(os.Args[0], "c06-cold", fmt.Sprint(c.Prog), fmt.Sprint(c.I), fmt.Sprint(c.J))
	var out bytes.Buffer
	cmd.Stdout = &out
	cmd.Stderr = &out
	err := cmd.Run()
	txt := out.String()
	if i := strings.Index(txt, "COLD-PANIC "); i >= 0 {
		return fw.Failf("two Unmarshal calls in a fresh process return a result or an error", "%s", fw.Trunc(strings.TrimSpace(txt[i+len("COLD-PANIC "):]), 500))
	}
	if err != nil || !strings.Contains(txt, "COLD-OK") {
		return fw.Failf("the fresh process completes", "err=%v output %q", err, fw.Trunc(txt, 400))
	}
	fw.Tally("cold_processes", 1)
	fw.TallyOutcome("coldpair-no-panic")
	fw.TallyNontrivial()
	return nil
}}

func init() {
	fw.Commands["c06-cold"] = func(args []string) int {
		var p, i, j int
		if len(args) != 3 {
			return 2
		}
		fmt.Sscan(args[0], &p)
		fmt.Sscan(args[1], &i)
		fmt.Sscan(args[2], &j)
		ts := c15Targets()
		src := c06TargetProgs[p]
		for _, k := range []int{i, j} {
			for _, file := range []bool{false, true} {
				var pan any
				func() {
					defer func() { pan = recover() }()
					var out, log bytes.Buffer
					if file {
						bcl.UnmarshalFile(impl.NewScriptFile(src, impl.Chunks(len(src)/2)), ts[k].mk(), bcl.OptOutput(&out), bcl.OptLogger(&log))
					} else {
						bcl.Unmarshal([]byte(src), ts[k].mk(), bcl.OptOutput(&out), bcl.OptLogger(&log))
					}
				}()
				if pan != nil {
					fmt.Printf("COLD-PANIC first target %s, then %s: Unmarshal into %s (file=%v) panics: %v\n", ts[i].name, ts[j].name, ts[k].name, file, pan)
					return 0
				}
			}
		}
		fmt.Println("COLD-OK")
		return 0
	}
}

var subC06 = &fw.Sub{Name: "c06.run", New: func() fw.Case { return &c06Case{} }, Exec: c06Exec}

// one representative per lexer character class
var c06Bytes = []string{"0", "1", "8", "9", "a", "e", "x", "E", "_", `"`, `\`, ".", "+", "-", "*", "/", "=", "!", "<", ">",
	":", ";", "(", ")", "{", "}", "#", " ", "\n", "\r", "\xC2", "\x85", "\xA0", "@", "\x00", "\xFF",
	// runes whose low byte is that of LF / space (a predicate that truncates the rune would misclassify them)
	"\u010a", "\u0120"}

// vocabulary incl. the dangerous spellings
var c06Toks = []string{"var", "def", "eval", "print", "bind", "true", "false", "nil", "not", "and", "or",
	"x", "y", "first", "all", "struct", "slice",
	"0", "1", "2", "08", "0x", "0x1F", "99999999999999999999", "2.5", "1e999", "1e2",
	`""`, `"a"`, `"\q"`,
	"=", "{", "}", "(", ")", "==", "!=", "<", "<=", ">", "+", "-", "*", "/", ":", "->", ";"}

var c06Contexts = []struct{ pre, post string }{{"", ""}, {"print ", ""}, {"def a{", "}"}}

// strings enumerates all strings of exactly n symbols over alpha joined by sep.
func allStrings(alpha []string, n int, sep string, f func(string) bool) bool {
	idx := make([]int, n)
	parts := make([]string, n)
	for {
		for i, k := range idx {
			parts[i] = alpha[k]
		}
		if !f(strings.Join(parts, sep)) {
			return false
		}
		i := n - 1
		for i >= 0 {
			idx[i]++
			if idx[i] < len(alpha) {
				break
			}
			idx[i] = 0
			i--
		}
		if i < 0 {
			return true
		}
	}
}

func init() {
	fw.Register(&fw.Check{
		ID:    "C06",
		Level: "exploration",
		Rule: "bounded-exhaustive: (a) every byte string of length <=L over one representative per lexer character class (38 symbols), bare and inside `print _` and `def a{_}`; " +
			"(b) every token string of length <=T over a 47-symbol vocabulary that includes the malformed literals; (c) every single-token and single-byte deviation (delete/insert/replace/transpose) of every core-corpus program; " +
			"(d) scaled programs just below/at/above each implementation limit; (e) 6 programs unmarshalled (bytes and file variant) into every one of the ~1100 target values of the C15 table, each preceded / followed by its neighbours in the table; (f) every ordered pair of the ~20 struct types that print the same name, each pair in a fresh process. Each through Parse+Interpret+Unmarshal under recover, (c),(d) and the short part of (a),(b) also through ParseFile/InterpretFile/UnmarshalFile in a worker process whose death is attributed to the input in flight. " +
			"Invariant oracle: returns, no panic, process alive, result or error. distinct_nontrivial = distinct inputs executed.",
		Subs:           []*fw.Sub{subC06, subC06Targets, subC06Cold},
		BudgetQuick:    170,
		BudgetThorough: 1800,
		Assumptions: []string{"inputs whose legitimate result needs more than 2^20 bytes of repeated string are excluded (decided by the reference model), as the property states",
			"hang = no return within the 60 s watchdog (cases take < 1 ms)"},
		Run: func(c *fw.Ctx) {
			do := func(src string, file int) bool {
				if c.Do(subC06, &c06Case{Src: src, File: file}) {
					c.Nontrivial()
				}
				return !c.Expired()
			}
			// (f) ordered pairs of same-named struct types, each pair in a fresh process
			same := c06SameNameTargets()
			for _, p := range []int{0, 1, 2} {
				for _, i := range same {
					for _, j := range same {
						if i != j {
							c.Do(subC06Cold, &c06Cold{Prog: p, I: i, J: j})
						}
					}
				}
			}
			// (e) Unmarshal into every target of the C15 table
			for p := range c06TargetProgs {
				for t := range c15Targets() {
					c.Do(subC06Targets, &c06TgtCase{Prog: p, Target: t})
					c.Do(subC06Targets, &c06TgtCase{Prog: p, Target: t, Rev: true})
				}
			}
			// (d) scaled families first (they hold the known limits)
			for _, s := range gen.ScaledFamilies(true) {
				for _, file := range []int{0, 1 << 30, 4096} {
					if c.Do(subC06, &c06Case{Name: "S:" + s.Name, Src: s.Src, File: file}) {
						c.Nontrivial()
					}
				}
			}
			// single lines and single lexical items of 100 KiB ... 1.1 MiB (no line end inside): strings, comments, blanks, names,
			// digits, operators — through the in-memory and the file entry points
			for _, n := range []int{100000, 262143, 262144, 262145, 300000, 524288, 600000, 1100000} {
				for name, item := range map[string]string{"string": `"` + strings.Repeat("s", n) + `"`, "comment": "#" + strings.Repeat("c", n), "blanks": strings.Repeat(" ", n) + "1",
					"name": strings.Repeat("n", n), "digits": strings.Repeat("7", n), "sum": strings.Repeat("1+", n/2) + "1", "crs": strings.Repeat("\r", n) + "1"} {
					if n > 300000 && (name == "sum" || name == "digits") {
						continue
					}
					for _, file := range []int{0, 1 << 30} {
						c.Do(subC06, &c06Case{Name: fmt.Sprintf("longline-%s-%d", name, n), Src: "print 1\nprint " + item + "\nprint 2", File: file})
					}
				}
			}
			// (c) deviations of K
			devBase := gen.Core()
			if c.Quick() {
				// quick: the families that differ in identifiers only are run as they are, not deviated
				devBase = gen.CoreBase()
				for _, src := range gen.Core() {
					do(src, 0)
				}
			}
			for _, src := range devBase {
				gen.Deviations(src, c06Toks, c06Bytes, func(d string) bool {
					do(d, 0)
					return do(d, 1<<30)
				})
				if c.Expired() {
					return
				}
			}
			for _, src := range gen.Small() {
				do(src, 1)
				do(src, 3)
				do(src, -4)
				do(src, -7)
			}
			// (a) byte strings
			maxB, maxT, fileLen := 4, 3, 2
			if c.Thorough() {
				maxB, maxT, fileLen = 5, 4, 3
			}
			for n := 0; n <= maxB; n++ {
				alpha := c06Bytes
				if n == 5 {
					alpha = c06Bytes[:30]
				}
				for _, ctx := range c06Contexts {
					ok := allStrings(alpha, n, "", func(s string) bool {
						src := ctx.pre + s + ctx.post
						if n <= fileLen {
							do(src, 1<<30)
							do(src, 2)
							do(src, -2)
						}
						return do(src, 0)
					})
					if !ok {
						c.Cap(fmt.Sprintf("deadline during byte strings of length %d", n))
						return
					}
				}
				c.Bound("byte_string_length_completed", n)
			}
			// (b) token strings
			for n := 1; n <= maxT; n++ {
				for _, ctx := range c06Contexts {
					ok := allStrings(c06Toks, n, " ", func(s string) bool {
						src := ctx.pre + s + ctx.post
						if n <= fileLen {
							do(src, 1<<30)
						}
						return do(src, 0)
					})
					if !ok {
						c.Cap(fmt.Sprintf("deadline during token strings of length %d", n))
						return
					}
				}
				c.Bound("token_string_length_completed", n)
			}
		},
		Finish: func(m *fw.Merged) []string {
			var v []string
			for _, o := range []string{"ok", "parse-error", "runtime-error", "file-ok", "file-parse-error"} {
				if m.Outcomes[o] == 0 {
					v = append(v, "vacuous: outcome class never observed: "+o)
				}
			}
			return v
		},
	})
}
