package checks

import (
	"bytes"
	"fmt"
	"regexp"
	"strconv"
	"strings"

	"github.com/wkhere/bcl"

	"verif/mc/bc"
	"verif/mc/fw"
	"verif/mc/gen"
	"verif/mc/impl"
)

// C10 — compiled bytecode is well-formed along every path.

// c10MidSrc compiles to about 3000 bytes of code
var c10MidSrc = strings.Repeat("print 1 + 2 * 3\n", 420)

var xstatRe = regexp.MustCompile(`xstats\.(\w+):\s*(\d+)`)

// compileDecode parses, dumps and decodes; ok=false when the program is not accepted.
func compileDecode(src string) (p *bc.Prog, prog *bcl.Prog, dump []byte, status string) {
	defer func() {
		if r := recover(); r != nil {
			status = fmt.Sprint("panic: ", r)
		}
	}()
	ps := impl.Parse(src)
	if ps.Err != nil {
		return nil, nil, nil, "rejected"
	}
	d, err := impl.Dump(ps.Prog)
	if err != nil {
		return nil, nil, nil, "dump-error: " + err.Error()
	}
	dp, err := bc.Decode(d)
	if err != nil {
		return nil, ps.Prog, d, "decode-error: " + err.Error()
	}
	return dp, ps.Prog, d, ""
}

func c10Exec(cs fw.Case) *fw.Fail {
	c := cs.(*progCase)
	if excluded(c.Src) {
		fw.TallyOutcome("excluded-by-property")
		return nil
	}
	dp, prog, dump0, status := compileDecode(c.Src)
	switch {
	case status == "rejected":
		fw.TallyOutcome("rejected")
		return nil
	case status != "" && dp == nil && prog == nil:
		// Parse/Dump panicked or failed: C06/C09's business
		fw.TallyOutcome("dump-failed")
		return nil
	case status != "":
		return fw.Failf("dump decodes per the documented layout", "%s", status)
	}
	// the compiled program is the Prog's own: compiling other programs afterwards (a small one, one whose
	// code fills most of a 4 KiB page, and the same source again) leaves it byte-identical
	others := []string{"print 1", c.Src}
	if len(dump0) > 1500 {
		others = append(others, c10MidSrc)
	}
	for _, other := range others {
		impl.Parse(other)
	}
	if d1, derr := impl.Dump(prog); derr != nil || !bytes.Equal(d1, dump0) {
		return fw.Failf("the compiled program is unchanged by later compilations", "dump of %d bytes became %d bytes (err %v), equal prefix %d", len(dump0), len(d1), derr, commonPrefix(d1, dump0))
	}
	st, err := bc.Verify(dp)
	fw.Tally("states", int64(st.States))
	fw.Tally("transitions", int64(st.Transitions))
	fw.Tally("jfalse_both_sides", int64(st.JFalseSites))
	fw.Tally("instructions", int64(st.Instrs))
	fw.Tally("traces_validated", 1)
	switch {
	case st.MaxJump == 65535:
		fw.TallyOutcome("jump-operand-65535")
	case st.MaxJump >= 32768:
		fw.TallyOutcome("jump-operand>=32768")
	}
	if err != nil {
		return fw.Failf("structurally valid bytecode on every control-flow path", "%v", err)
	}
	// every byte of an instruction carries the same source position
	if list, lerr := bc.Listing(dp.Code); lerr == nil {
		for _, in := range list {
			for k := 1; k < in.Len; k++ {
				if dp.Positions[in.Off+k] != dp.Positions[in.Off] {
					return fw.Failf("one source position per instruction", "%s at %d: operand byte %d has position %d, opcode has %d", in, in.Off, k, dp.Positions[in.Off+k], dp.Positions[in.Off])
				}
			}
		}
	}
	// cross-check with the real VM: its measured maxima never exceed the verifier's, and it
	// executes exactly as many instructions as the reference VM
	return fw.Guard(func() *fw.Fail {
		var out bytes.Buffer
		_, _, xerr := bcl.Execute(prog, bcl.OptStats(true), bcl.OptOutput(&out), bcl.OptLogger(&bytes.Buffer{}))
		// Execute writes to the writers given at Parse time for program output; stats go to this call's output
		stats := map[string]int{}
		for _, m := range xstatRe.FindAllStringSubmatch(out.String(), -1) {
			stats[m[1]], _ = strconv.Atoi(m[2])
		}
		if len(stats) < 4 {
			return fw.Failf("statistics lines", "got %q", out.String())
		}
		if stats["tosMax"] > st.MaxDepth {
			return fw.Failf(fmt.Sprintf("operand depth <= %d (verifier maximum over all paths)", st.MaxDepth), "VM measured tosMax=%d", stats["tosMax"])
		}
		if stats["blockTosMax"] > st.MaxBlockDepth {
			return fw.Failf(fmt.Sprintf("block depth <= %d", st.MaxBlockDepth), "VM measured blockTosMax=%d", stats["blockTosMax"])
		}
		rv := bc.Run(dp, 1<<22)
		if rv.Internal != "" {
			return fw.Failf("reference VM runs the verified program", "%s", rv.Internal)
		}
		if rv.Unspecified == "" && stats["opsRead"] != rv.Steps {
			return fw.Failf(fmt.Sprintf("%d instructions executed (reference VM)", rv.Steps), "VM opsRead=%d (err=%v)", stats["opsRead"], xerr)
		}
		if xerr != nil && regexp.MustCompile(`^internal error`).MatchString(xerr.Error()) {
			return fw.Failf("never the 'non-empty stack' internal error", "%v", xerr)
		}
		if st.JFalseSites > 0 {
			fw.TallyOutcome("verified-with-branches")
		} else {
			fw.TallyOutcome("verified-straight-line")
		}
		fw.TallyNontrivial()
		return nil
	})
}

var subC10 = &fw.Sub{Name: "c10.verify", New: func() fw.Case { return &progCase{} }, Exec: c10Exec}

// enumAllPrograms feeds do with the programs of the C01–C04 enumerations, K and S.
func enumAllPrograms(c *fw.Ctx, do func(src, shard string) bool) {
	for _, s := range gen.Core() {
		if !do(s, "") {
			return
		}
	}
	for _, s := range gen.ScaledFamilies(c.Thorough()) {
		if !do(s.Src, "") {
			return
		}
	}
	if c.Quick() {
		// the pools of more than 65536 constants belong to the big families; they are cheap enough for the quick tier
		for _, s := range gen.ScaledFamilies(true) {
			if strings.HasPrefix(s.Name, "constpool-") && len(s.Src) > 400000 {
				if !do(s.Src, "") {
					return
				}
			}
		}
	}
	for _, id := range []string{"C04", "C03", "C02"} {
		sp := seqSpecs[id]
		if c.Quick() {
			sp.quickLen-- // one level less than the property's own check, to keep the quick tier short
		}
		enumSeq(sp, c, do)
		if c.Expired() {
			return
		}
	}
	enumC01(c, do)
}

func init() {
	fw.Register(&fw.Check{
		ID:    "C10",
		Level: "model_checking",
		Rule: "for every accepted program of the core corpus K, the scaled families S (jump distances 65534..65536, operand indices >=241, stack depth 1023..1025, nesting 15..18) and of the C01-C04 enumerations (expression trees of depth <=2, chains, statement sequences): " +
			"the dump is decoded by the independent decoder and an explicit-state search over the abstract states (pc, operand depth, block depth) follows BOTH successors of every JFALSE. Invariants per state: known opcode, instruction inside the code, operands decode, constant index in range and of the required kind, " +
			"local slot < depth, jump target on an instruction boundary, depth >= 0 and equal on all paths into a pc, blocks balanced, RET with depth 0, no unreachable instruction, one source position per instruction. " +
			"The Prog is dumped again after further compilations (a small program, the same source, and ~3 kB of code for programs above 1.5 kB) and must be byte-identical. Cross-check: the real VM's tosMax/blockTosMax never exceed the verifier's maxima and opsRead equals the reference VM's step count. states/transitions are abstract states/edges summed over programs.",
		Subs:           []*fw.Sub{subC10},
		BudgetQuick:    100,
		BudgetThorough: 1500,
		Assumptions:    []string{"opcode numbers, operand kinds and stack effects are pinned in mc/bc (DESIGN appendix B), not imported from /repo"},
		Run: func(c *fw.Ctx) {
			enumAllPrograms(c, func(src, shard string) bool {
				c.Do(subC10, &progCase{Src: src, Shard: shard})
				return !c.Expired()
			})
		},
		Finish: func(m *fw.Merged) []string {
			var v []string
			if m.Outcomes["verified-with-branches"] == 0 || m.Outcomes["verified-straight-line"] == 0 {
				v = append(v, "vacuous: no program with / without branches verified")
			}
			if m.Outcomes["jump-operand-65535"] == 0 || m.Outcomes["jump-operand>=32768"] == 0 {
				v = append(v, "vacuous: no program with a jump operand of 65535 / above 32767 was verified")
			}
			if m.Counters["jfalse_both_sides"] == 0 {
				v = append(v, "vacuous: no JFALSE site explored")
			}
			m.Extra["programs"] = m.Outcomes["verified-with-branches"] + m.Outcomes["verified-straight-line"]
			m.Extra["jfalse_both_sides"] = m.Counters["jfalse_both_sides"]
			return v
		},
	})
}
