package checks

import (
	"fmt"
	"reflect"
	"sort"
	"strconv"
	"strings"
	"time"

	"github.com/wkhere/bcl"

	"verif/mc/fw"
	"verif/mc/vsched"
)

// C15 — Bind never panics and never silently drops or coerces data.
// C16(a) — the outcome does not depend on map iteration order (explored exhaustively through
// the map-order choice point of the instrumented package).

// ---------------------------------------------------------------- bindings

type namedBinding struct {
	name string
	mk   func() bcl.Binding
}

var c15Values = []struct {
	name string
	v    any
}{
	{"1", 1}, {"2.5", 2.5}, {`"s"`, "s"}, {"true", true}, {"nil", nil}, {"int32(1)", int32(1)},
	{"blk{}", bcl.Block{Type: "in", Fields: map[string]any{}}},
	{"blk{p=1}", bcl.Block{Type: "in", Name: "p", Fields: map[string]any{"x": 1}}},
	{"blk{nilfields}", bcl.Block{Type: "in"}},
	{"blk{deep}", bcl.Block{Type: "in", Fields: map[string]any{"in": bcl.Block{Type: "in", Fields: map[string]any{"x": 2}}}}},
	// values a program cannot produce but a hand-built binding can hold: structs that are not Blocks, pointers, slices, maps
	{"struct{}{}", struct{}{}}, {"time.Time", time.Time{}}, {"Emb{1}", Emb{X: 1}}, {"myBlock", myBlock{Type: "in"}},
	{"*Block", c15BlockPtr}, {"[]int", []int{1}}, {"map", map[string]int{"a": 1}},
}

// c15WideBlock: a block "t" with w keys f0..f(w-2) + a nested block "in" built the same way, three levels.
func c15WideBlock(w int, bad bool) bcl.Block {
	var mk func(level int) bcl.Block
	mk = func(level int) bcl.Block {
		b := bcl.Block{Type: []string{"t", "in", "in"}[2-level], Fields: map[string]any{}}
		for i := 0; i < w-1; i++ {
			b.Fields[fmt.Sprintf("f%d", i)] = 10*level + i
		}
		if level > 0 {
			b.Fields["in"] = mk(level - 1)
		} else {
			b.Fields[fmt.Sprintf("f%d", w-1)] = 99
			if bad {
				b.Fields["f0"] = "not an int"
			}
		}
		return b
	}
	return mk(2)
}

func c15WideType(w, level int) reflect.Type {
	var fs []reflect.StructField
	for i := 0; i < w-1; i++ {
		fs = append(fs, reflect.StructField{Name: fmt.Sprintf("F%d", i), Type: reflect.TypeOf(0)})
	}
	if level > 0 {
		fs = append(fs, reflect.StructField{Name: "In", Type: c15WideType(w, level-1)})
	} else {
		fs = append(fs, reflect.StructField{Name: fmt.Sprintf("F%d", w-1), Type: reflect.TypeOf(0)})
	}
	return reflect.StructOf(fs)
}

type myBlock bcl.Block

var c15BlockPtr = &bcl.Block{Type: "in", Fields: map[string]any{"x": 1}}

// a Binding implemented by embedding the interface
type wrapBinding struct{ bcl.Binding }

var c15Keys = []string{"x", "X", "y", "foo_bar", "in", "in.p", "emb", "z", "Name", "name", "żądło"}

func c15Bindings(quick bool) []namedBinding {
	var out []namedBinding
	out = append(out, namedBinding{"nil-binding", func() bcl.Binding { return nil }})
	type blockSpec struct {
		name string
		mk   func() bcl.Block
	}
	var blocks []blockSpec
	blocks = append(blocks, blockSpec{"{}", func() bcl.Block { return bcl.Block{Type: "t", Fields: map[string]any{}} }})
	blocks = append(blocks, blockSpec{"{nilfields}", func() bcl.Block { return bcl.Block{Type: "t", Name: "nm"} }})
	for ki, k := range c15Keys {
		for vi, v := range c15Values {
			k, v := k, v
			for _, nm := range []string{"", "nm"} {
				nm := nm
				if nm != "" && (ki+vi)%3 != 0 {
					continue
				}
				blocks = append(blocks, blockSpec{fmt.Sprintf("{%q %s=%s}", nm, k, v.name), func() bcl.Block {
					return bcl.Block{Type: "t", Name: nm, Fields: map[string]any{k: v.v}}
				}})
			}
			// two fields
			for kj, k2 := range c15Keys {
				if kj <= ki {
					continue
				}
				for vj, v2 := range c15Values {
					if quick && (vi+vj+ki+kj)%4 != 0 {
						continue
					}
					k2, v2 := k2, v2
					blocks = append(blocks, blockSpec{fmt.Sprintf("{%s=%s %s=%s}", k, v.name, k2, v2.name), func() bcl.Block {
						return bcl.Block{Type: "t", Fields: map[string]any{k: v.v, k2: v2.v}}
					}})
				}
			}
		}
	}
	for _, b := range blocks {
		b := b
		out = append(out, namedBinding{"struct:" + b.name, func() bcl.Binding { return bcl.StructBinding{Value: b.mk()} }})
	}
	// slice bindings: 0..2 blocks
	out = append(out, namedBinding{"slice:[]", func() bcl.Binding { return bcl.SliceBinding{} }})
	// wide blocks in wide blocks (more keys than any fixed-size scratch space), one of them with a fault deep inside
	for _, w := range []int{8, 9, 10, 17} {
		w := w
		for _, bad := range []bool{false, true} {
			bad := bad
			name := fmt.Sprintf("struct:wide%d", w)
			if bad {
				name += "-bad"
			}
			out = append(out, namedBinding{name, func() bcl.Binding { return bcl.StructBinding{Value: c15WideBlock(w, bad)} }})
			out = append(out, namedBinding{"slice:[" + name[7:] + "]", func() bcl.Binding {
				return bcl.SliceBinding{Value: []bcl.Block{c15WideBlock(w, false), c15WideBlock(w, bad)}}
			}})
		}
	}
	// bindings of other dynamic types: pointers (nil and not) to the two binding types, wrappers embedding the interface
	blkX := func() bcl.Block { return bcl.Block{Type: "t", Fields: map[string]any{"x": 1}} }
	out = append(out,
		namedBinding{"ptr:nil-*StructBinding", func() bcl.Binding { return (*bcl.StructBinding)(nil) }},
		namedBinding{"ptr:nil-*SliceBinding", func() bcl.Binding { return (*bcl.SliceBinding)(nil) }},
		namedBinding{"ptr:*StructBinding{x=1}", func() bcl.Binding { return &bcl.StructBinding{Value: blkX()} }},
		namedBinding{"ptr:*SliceBinding[{x=1}]", func() bcl.Binding { return &bcl.SliceBinding{Value: []bcl.Block{blkX()}} }},
		namedBinding{"wrap:nil", func() bcl.Binding { return wrapBinding{} }},
		namedBinding{"wrap:struct{x=1}", func() bcl.Binding { return wrapBinding{bcl.StructBinding{Value: blkX()}} }},
		namedBinding{"wrap:slice[{x=1}]", func() bcl.Binding { return &wrapBinding{bcl.SliceBinding{Value: []bcl.Block{blkX()}}} }},
	)
	for i, b := range blocks {
		b := b
		if i%7 != 0 && quick {
			continue
		}
		out = append(out, namedBinding{"slice:[" + b.name + "]", func() bcl.Binding { return bcl.SliceBinding{Value: []bcl.Block{b.mk()}} }})
		b2 := blocks[(i*5+3)%len(blocks)]
		out = append(out, namedBinding{"slice:[" + b.name + " " + b2.name + "]", func() bcl.Binding {
			return bcl.SliceBinding{Value: []bcl.Block{b.mk(), b2.mk()}}
		}})
	}
	return out
}

// ---------------------------------------------------------------- targets

type Emb struct{ X int }
type embUnexp struct{ X int }
type WithUnexpEmbPtr struct { // a promoted field behind a pointer to an unexported type
	*embUnexp
	Y int
}
type WithUnexpEmb struct {
	embUnexp
	Y int
}
type EmbIn struct{ In struct{ X int } }
type WithEmb struct {
	Emb
	Y int
}
type WithEmbPtr struct {
	*Emb
	Y int
}
type withUnexported struct {
	x int
	Y int
}
type TaggedPair struct {
	A int `bcl:"x"`
	X int
}
type FoldPair struct { // two keys x / X fold onto the one field X
	X int
	Y string
}
type In struct {
	Name string
	X    int
}
type NestedOK struct {
	In In
	X  int
}
type T struct { // matches block type "t"
	Name   string
	X      int
	Y      float64
	FooBar string
	Z      bool
}
type Other struct{ X int } // does not match block type "t"

type namedTarget struct {
	name string
	mk   func() any
}

func c15Targets() []namedTarget {
	var out []namedTarget
	add := func(name string, mk func() any) { out = append(out, namedTarget{name, mk}) }
	add("nil", func() any { return nil })
	add("int", func() any { return 5 })
	add("struct-value", func() any { return struct{ X int }{} })
	add("nil-*struct", func() any { return (*struct{ X int })(nil) })
	add("nil-*[]struct", func() any { return (*[]struct{ X int })(nil) })
	add("**struct", func() any { p := &struct{ X int }{}; return &p })
	add("*int", func() any { return new(int) })
	add("*string", func() any { return new(string) })
	add("*bool", func() any { return new(bool) })
	add("*float64", func() any { return new(float64) })
	add("*map", func() any { m := map[string]int{}; return &m })
	add("*chan", func() any { c := make(chan int); return &c })
	add("*func", func() any { f := func() {}; return &f })
	add("*any", func() any { var a any; return &a })
	add("*[2]int", func() any { return &[2]int{} })
	add("*[]int", func() any { return &[]int{1, 2} })
	add("*[]*S", func() any { return &[]*struct{ X int }{{X: 9}} })
	add("*[]S", func() any { return &[]struct{ X int }{{X: 9}, {X: 8}} })
	add("*[]S{X,Y}", func() any { return &[]struct{ X, Y int }{{X: 9}} })
	add("*[]T", func() any { return &[]T{{X: 9}} })
	add("*[]any", func() any { return &[]any{1} })
	// hand-declared struct targets
	add("*WithEmb", func() any { return &WithEmb{} })
	add("*WithEmbPtr", func() any { return &WithEmbPtr{} })
	add("*WithEmbPtrSet", func() any { return &WithEmbPtr{Emb: &Emb{}} })
	add("*withUnexported", func() any { return &withUnexported{} })
	add("*TaggedPair", func() any { return &TaggedPair{} })
	add("*FoldPair", func() any { return &FoldPair{} })
	add("*NestedOK", func() any { return &NestedOK{} })
	add("*T", func() any { return &T{} })
	add("*Other", func() any { return &Other{} })
	add("*EmbIn", func() any { return &EmbIn{} })
	// the same layouts under a type name that MATCHES the block type "t" (a named struct type whose name does not
	// match is refused before any field is looked at): local types called T
	add("*T{Emb;Y}", func() any {
		type T struct {
			Emb
			Y int
		}
		return &T{}
	})
	add("*T{*Emb;Y} nil", func() any {
		type T struct {
			*Emb
			Y int
		}
		return &T{}
	})
	add("*T{*Emb;Y} set", func() any {
		type T struct {
			*Emb
			Y int
		}
		return &T{Emb: &Emb{}}
	})
	add("*T{*embUnexp;Y} nil", func() any {
		type T struct {
			*embUnexp
			Y int
		}
		return &T{}
	})
	add("*T{*embUnexp;Y} set", func() any {
		type T struct {
			*embUnexp
			Y int
		}
		return &T{embUnexp: &embUnexp{}}
	})
	add("*T{embUnexp;Y}", func() any {
		type T struct {
			embUnexp
			Y int
		}
		return &T{}
	})
	add("*T{x;Y}", func() any {
		type T struct {
			x int
			Y int
		}
		return &T{x: 1}
	})
	add("*T{A tag x;X}", func() any {
		type T struct {
			A int `bcl:"x"`
			X int
		}
		return &T{}
	})
	add("*T{A;B;C;D tag x}", func() any {
		type T struct {
			A, B, C int
			D       int `bcl:"x"`
		}
		return &T{}
	})
	add("*T{żądło;Y}", func() any { // an unexported field whose name does not start with an ASCII letter
		type T struct {
			żądło int
			Y     int
		}
		return &T{żądło: 1}
	})
	add("*T{Żądło;δ}", func() any {
		type T struct {
			Żądło int
			δ     string
		}
		return &T{}
	})
	// an embedded struct in front of tagged fields (positions among the visible fields differ from positions in the struct)
	add("*T{Emb;B tag y;C}", func() any {
		type T struct {
			Emb
			B int `bcl:"y"`
			C int
		}
		return &T{}
	})
	add("*T{Emb;A;B tag y}", func() any {
		type T struct {
			Emb
			A int
			B int `bcl:"y"`
		}
		return &T{}
	})
	// pointer and interface fields that already hold something (a nested block needs a struct destination)
	add("*T{In *In set;X}", func() any {
		type T struct {
			In *In
			X  int
		}
		return &T{In: &In{Name: "old", X: 5}}
	})
	add("*T{In any=&In;X}", func() any {
		type T struct {
			In any
			X  int
		}
		return &T{In: &In{Name: "old", X: 5}}
	})
	add("*T{In any=In;X}", func() any {
		type T struct {
			In any
			X  int
		}
		return &T{In: In{Name: "old", X: 5}}
	})
	add("*T{In **In set}", func() any {
		type T struct {
			In **In
		}
		p := &In{}
		return &T{In: &p}
	})
	add("*T{X}", func() any {
		type T struct{ X int }
		return &T{}
	})
	add("*T{Y tag x}", func() any {
		type T struct {
			Y int `bcl:"x"`
		}
		return &T{}
	})
	add("*T{In In;X}", func() any {
		type T struct {
			In In
			X  int
		}
		return &T{}
	})
	add("*T{In *In;X}", func() any {
		type T struct {
			In *In
			X  int
		}
		return &T{}
	})
	add("*T{In T{*embUnexp}}", func() any {
		type in struct {
			*embUnexp
			Name string
		}
		type T struct {
			In in
			X  int
		}
		return &T{}
	})
	add("*[]T{*embUnexp;Y}", func() any {
		type T struct {
			*embUnexp
			Y int
		}
		return &[]T{}
	})
	add("*WithUnexpEmbPtr", func() any { return &WithUnexpEmbPtr{} })
	add("*WithUnexpEmbPtrSet", func() any { return &WithUnexpEmbPtr{embUnexp: &embUnexp{}} })
	add("*WithUnexpEmb", func() any { return &WithUnexpEmb{} })
	add("*[]WithUnexpEmbPtr", func() any { return &[]WithUnexpEmbPtr{} })
	add("*struct{In WithUnexpEmbPtr}", func() any { return &struct{ In WithUnexpEmbPtr }{} })
	// generated: one or two fields over every Go kind, field names chosen to meet the keys
	kinds := []struct {
		name string
		t    reflect.Type
	}{
		{"int", reflect.TypeOf(0)}, {"int8", reflect.TypeOf(int8(0))}, {"uint", reflect.TypeOf(uint(0))}, {"float32", reflect.TypeOf(float32(0))},
		{"float64", reflect.TypeOf(0.0)}, {"string", reflect.TypeOf("")}, {"bool", reflect.TypeOf(false)}, {"*int", reflect.TypeOf(new(int))},
		{"any", reflect.TypeOf((*any)(nil)).Elem()}, {"[]int", reflect.TypeOf([]int{})}, {"[2]int", reflect.TypeOf([2]int{})},
		{"map", reflect.TypeOf(map[string]int{})}, {"func", reflect.TypeOf(func() {})}, {"chan", reflect.TypeOf(make(chan int))},
		{"struct{X int}", reflect.TypeOf(struct{ X int }{})}, {"*struct{X int}", reflect.TypeOf(&struct{ X int }{})},
		{"struct{Name string;X int}", reflect.TypeOf(struct {
			Name string
			X    int
		}{})},
		{"int32", reflect.TypeOf(int32(0))}, {"Block", reflect.TypeOf(bcl.Block{})}, {"[]any", reflect.TypeOf([]any{})},
	}
	fieldNames := []string{"X", "Y", "FooBar", "In", "Name"}
	for _, fn := range fieldNames {
		for _, k := range kinds {
			fn, k := fn, k
			add(fmt.Sprintf("*struct{%s %s}", fn, k.name), func() any {
				return reflect.New(reflect.StructOf([]reflect.StructField{{Name: fn, Type: k.t}})).Interface()
			})
			for _, k2 := range kinds[:9] {
				k2 := k2
				fn2 := "Y"
				if fn == "Y" {
					fn2 = "X"
				}
				add(fmt.Sprintf("*struct{%s %s; %s %s}", fn, k.name, fn2, k2.name), func() any {
					return reflect.New(reflect.StructOf([]reflect.StructField{{Name: fn, Type: k.t}, {Name: fn2, Type: k2.t}})).Interface()
				})
			}
		}
	}
	for _, w := range []int{8, 9, 10, 17} {
		w := w
		add(fmt.Sprintf("*wide%d", w), func() any { return reflect.New(c15WideType(w, 2)).Interface() })
		add(fmt.Sprintf("*[]wide%d", w), func() any { return reflect.New(reflect.SliceOf(c15WideType(w, 2))).Interface() })
	}
	add("*struct{tagged}", func() any {
		return reflect.New(reflect.StructOf([]reflect.StructField{{Name: "A", Type: reflect.TypeOf(0), Tag: `bcl:"foo_bar"`}, {Name: "FooBar", Type: reflect.TypeOf("")}})).Interface()
	})
	return out
}

// ---------------------------------------------------------------- the oracle

func fold(s string) string { return strings.ToLower(strings.ReplaceAll(s, "_", "")) }

// counterpart finds, independently of the implementation, the struct field a key designates:
// the field whose bcl tag equals the key, else the unique field (incl. promoted ones) whose
// name equals the key ignoring case and underscores.
func counterpart(t reflect.Type, key string) (reflect.StructField, bool) {
	for i := 0; i < t.NumField(); i++ {
		if tag := t.Field(i).Tag.Get("bcl"); tag != "" && tag == key {
			return t.Field(i), true
		}
	}
	if i := strings.Index(key, "."); i >= 0 {
		key = key[:i]
	}
	var found []reflect.StructField
	for _, f := range reflect.VisibleFields(t) {
		if fold(f.Name) == fold(key) {
			found = append(found, f)
		}
	}
	// shallowest wins, as in Go's selector rules; ambiguity at the same depth = no counterpart
	if len(found) == 0 {
		return reflect.StructField{}, false
	}
	sort.SliceStable(found, func(i, j int) bool { return len(found[i].Index) < len(found[j].Index) })
	if len(found) > 1 && len(found[0].Index) == len(found[1].Index) {
		return reflect.StructField{}, false
	}
	return found[0], true
}

func fieldByIndexSafe(v reflect.Value, idx []int) (reflect.Value, bool) {
	for _, i := range idx {
		if v.Kind() == reflect.Pointer {
			if v.IsNil() {
				return reflect.Value{}, false
			}
			v = v.Elem()
		}
		v = v.Field(i)
	}
	return v, true
}

// notStored explains why a nil return is wrong for this block and struct value ("" if all is stored).
func notStored(v reflect.Value, b bcl.Block) string {
	if v.Kind() != reflect.Struct {
		return fmt.Sprintf("destination of block %q is a %s, not a struct", b.Type, v.Kind())
	}
	t := v.Type()
	claimed := map[string]string{}
	check := func(key string, val any) string {
		f, ok := counterpart(t, key)
		if !ok {
			return fmt.Sprintf("key %q has no corresponding field in %s", key, t)
		}
		if !f.IsExported() {
			return fmt.Sprintf("key %q corresponds to the unexported field %s", key, f.Name)
		}
		if prev, dup := claimed[f.Name]; dup {
			return fmt.Sprintf("keys %q and %q both correspond to field %s: one of them is silently lost", prev, key, f.Name)
		}
		claimed[f.Name] = key
		fv, ok := fieldByIndexSafe(v, f.Index)
		if !ok {
			return fmt.Sprintf("key %q corresponds to a field behind a nil embedded pointer", key)
		}
		if val == nil {
			return fmt.Sprintf("key %q holds nil: must be reported as an error", key)
		}
		if inner, isBlock := val.(bcl.Block); isBlock {
			if fv.Kind() != reflect.Struct {
				return fmt.Sprintf("nested block %q stored into a %s, not a struct", key, fv.Kind())
			}
			if fv.Type() == reflect.TypeOf(bcl.Block{}) {
				if reflect.DeepEqual(fv.Interface(), val) {
					return ""
				}
			}
			return notStored(fv, inner)
		}
		if !reflect.TypeOf(val).AssignableTo(fv.Type()) {
			return fmt.Sprintf("key %q: value of type %T is not assignable to field %s of type %s (no coercion)", key, val, f.Name, fv.Type())
		}
		// an assignable value of another (unnamed/named) type with the same underlying type is stored as the field's type
		stored := reflect.ValueOf(val).Convert(fv.Type()).Interface()
		if !reflect.DeepEqual(fv.Interface(), stored) {
			return fmt.Sprintf("key %q: field %s holds %#v, block has %#v", key, f.Name, fv.Interface(), val)
		}
		return ""
	}
	if b.Name != "" {
		if msg := check("Name", b.Name); msg != "" {
			return "block name: " + msg
		}
	}
	keys := make([]string, 0, len(b.Fields))
	for k := range b.Fields {
		keys = append(keys, k)
	}
	sort.Strings(keys)
	for _, k := range keys {
		if msg := check(k, b.Fields[k]); msg != "" {
			return msg
		}
	}
	return ""
}

type c15Case struct {
	B string `json:"binding"`
	T string `json:"target"`
}

func (c *c15Case) Key() string { return c.B + " -> " + c.T }

var c15B map[string]namedBinding
var c15T map[string]namedTarget

func c15Tables() {
	if c15B != nil {
		return
	}
	c15B = map[string]namedBinding{}
	for _, b := range c15Bindings(false) {
		c15B[b.name] = b
	}
	for _, b := range c15Bindings(true) {
		c15B[b.name] = b
	}
	c15T = map[string]namedTarget{}
	for _, t := range c15Targets() {
		c15T[t.name] = t
	}
}

func snapshot(target any) string {
	v := reflect.ValueOf(target)
	if !v.IsValid() || v.Kind() != reflect.Pointer || v.IsNil() {
		return deepStr(v, 0)
	}
	return deepStr(v.Elem(), 0)
}

// deepStr renders a value without any address in it (pointers are followed; funcs and channels print as
// nil / non-nil), so that two executions can be compared.
func deepStr(v reflect.Value, depth int) string {
	if !v.IsValid() {
		return "<invalid>"
	}
	if depth > 8 {
		return "..."
	}
	switch v.Kind() {
	case reflect.Pointer:
		if v.IsNil() {
			return "nil-" + v.Type().String()
		}
		return "&" + deepStr(v.Elem(), depth+1)
	case reflect.Interface:
		if v.IsNil() {
			return "nil-interface"
		}
		return "i(" + deepStr(v.Elem(), depth+1) + ")"
	case reflect.Struct:
		var sb strings.Builder
		sb.WriteString(v.Type().String() + "{")
		for i := 0; i < v.NumField(); i++ {
			if i > 0 {
				sb.WriteString(", ")
			}
			sb.WriteString(v.Type().Field(i).Name + ":" + deepStr(v.Field(i), depth+1))
		}
		sb.WriteString("}")
		return sb.String()
	case reflect.Slice, reflect.Array:
		if v.Kind() == reflect.Slice && v.IsNil() {
			return "nil-" + v.Type().String()
		}
		var sb strings.Builder
		sb.WriteString(v.Type().String() + "[")
		for i := 0; i < v.Len(); i++ {
			if i > 0 {
				sb.WriteString(", ")
			}
			sb.WriteString(deepStr(v.Index(i), depth+1))
		}
		sb.WriteString("]")
		return sb.String()
	case reflect.Map:
		if v.IsNil() {
			return "nil-" + v.Type().String()
		}
		var parts []string
		it := v.MapRange()
		for it.Next() {
			parts = append(parts, deepStr(it.Key(), depth+1)+":"+deepStr(it.Value(), depth+1))
		}
		sort.Strings(parts)
		return v.Type().String() + "{" + strings.Join(parts, ", ") + "}"
	case reflect.Func, reflect.Chan, reflect.UnsafePointer:
		if v.IsNil() {
			return "nil-" + v.Type().String()
		}
		return "non-nil-" + v.Type().String()
	case reflect.String:
		return strconv.Quote(v.String())
	case reflect.Int, reflect.Int8, reflect.Int16, reflect.Int32, reflect.Int64:
		return fmt.Sprintf("%s(%d)", v.Type().String(), v.Int())
	case reflect.Uint, reflect.Uint8, reflect.Uint16, reflect.Uint32, reflect.Uint64, reflect.Uintptr:
		return fmt.Sprintf("%s(%d)", v.Type().String(), v.Uint())
	case reflect.Float32, reflect.Float64:
		return fmt.Sprintf("%s(%v)", v.Type().String(), v.Float())
	case reflect.Bool:
		return fmt.Sprint(v.Bool())
	case reflect.Complex64, reflect.Complex128:
		return fmt.Sprint(v.Complex())
	}
	return "?" + v.Kind().String()
}

// c15Exec explores every map iteration order of every range-over-map executed by Bind.
func c15Exec(cs fw.Case, orderMatters bool) *fw.Fail {
	c := cs.(*c15Case)
	if f := requireInstrumented(); f != nil {
		return f
	}
	c15Tables()
	nb, ok1 := c15B[c.B]
	nt, ok2 := c15T[c.T]
	if !ok1 || !ok2 {
		return fw.Failf("case tables contain the case", "unknown binding or target")
	}
	var target any
	var binding bcl.Binding
	var err error
	var before string
	body := func() {
		target = nt.mk()
		binding = nb.mk()
		before = snapshot(target)
		err = bcl.Bind(target, binding)
	}
	first := ""
	firstSet := false
	check := func(e *vsched.Exec) (string, string) {
		if len(e.Panics) > 0 {
			return "panic", "Bind panics: " + strings.Join(e.Panics, "; ")
		}
		after := snapshot(target)
		obs := fmt.Sprintf("err=%v target=%s", err, after)
		if !firstSet {
			first, firstSet = obs, true
		} else if obs != first && orderMatters {
			return "order-dependent", fmt.Sprintf("outcome depends on map iteration order:\n   one order: %s\n   another:   %s", fw.Trunc(first, 300), fw.Trunc(obs, 300))
		}
		tv := reflect.ValueOf(target)
		if err == nil {
			// nil only if everything was stored unchanged
			if binding == nil {
				return "nil-binding", "Bind returned nil for a nil binding"
			}
			if !tv.IsValid() || tv.Kind() != reflect.Pointer || tv.IsNil() {
				return "bad-target", fmt.Sprintf("Bind returned nil for target %s", nt.name)
			}
			eff := binding
			for {
				switch w := eff.(type) {
				case *bcl.StructBinding:
					if w == nil {
						return "nil-binding", "Bind returned nil for a nil *StructBinding"
					}
					eff = *w
					continue
				case *bcl.SliceBinding:
					if w == nil {
						return "nil-binding", "Bind returned nil for a nil *SliceBinding"
					}
					eff = *w
					continue
				case wrapBinding:
					eff = w.Binding
					continue
				case *wrapBinding:
					eff = w.Binding
					continue
				}
				break
			}
			if eff == nil {
				return "nil-binding", "Bind returned nil for a binding that holds no blocks"
			}
			switch b := eff.(type) {
			case bcl.StructBinding:
				if msg := notStored(tv.Elem(), b.Value); msg != "" {
					return "dropped", "Bind returned nil although " + msg
				}
			case bcl.SliceBinding:
				sv := tv.Elem()
				if sv.Kind() != reflect.Slice {
					return "bad-target", fmt.Sprintf("slice binding into %s returned nil", sv.Kind())
				}
				if ek := sv.Type().Elem().Kind(); ek != reflect.Struct {
					return "bad-target", fmt.Sprintf("slice binding into a slice of %s (not structs) returned nil", ek)
				}
				if sv.Len() != len(b.Value) {
					return "dropped", fmt.Sprintf("slice binding of %d blocks left %d elements", len(b.Value), sv.Len())
				}
				for i, blk := range b.Value {
					if msg := notStored(sv.Index(i), blk); msg != "" {
						return "dropped", fmt.Sprintf("Bind returned nil although (element %d) %s", i, msg)
					}
				}
			}
			return "stored", ""
		}
		// error: a slice target keeps its previous contents
		if _, isSlice := binding.(bcl.SliceBinding); isSlice && tv.IsValid() && tv.Kind() == reflect.Pointer && !tv.IsNil() && tv.Elem().Kind() == reflect.Slice {
			if after != before {
				return "slice-clobbered", fmt.Sprintf("Bind failed (%v) but the slice target changed from %s to %s", err, fw.Trunc(before, 200), fw.Trunc(after, 200))
			}
		}
		// completeness for the plain cases: everything storable => must succeed
		if sb, isStruct := binding.(bcl.StructBinding); isStruct && tv.IsValid() && tv.Kind() == reflect.Pointer && !tv.IsNil() && tv.Elem().Kind() == reflect.Struct && tv.Elem().Type().Name() == "" {
			probe := reflect.New(tv.Elem().Type()).Elem()
			if storable(probe, sb.Value) {
				return "refused", fmt.Sprintf("every key has an assignable exported counterpart, yet Bind failed: %v", err)
			}
		}
		return "error", ""
	}
	x := &vsched.Explorer{Bound: 0, Body: body, Check: check, MaxExec: 5000}
	if strings.Contains(c.B, "wide") {
		// 8..17 keys per level: the orders are not enumerable; the first 300 in depth-first order are explored
		x.MaxExec = 300
	}
	x.Explore()
	if x.Capped {
		fw.Tally("map_order_explorations_capped", 1)
	}
	if x.Infra != "" {
		return fw.Failf("deterministic replay", "INFRA %s", x.Infra)
	}
	if x.Fail != "" {
		return fw.Failf("Bind returns nil only if all data is stored unchanged; errors otherwise; never panics; outcome independent of map order",
			"map-order choices %v: %s", x.FailTrace, x.Fail)
	}
	fw.Tally("map_orders", int64(x.Executions))
	fw.Tally("states", int64(x.Executions))
	fw.Tally("transitions", x.Steps+int64(x.Executions))
	fw.Tally("traces_validated", int64(x.Executions))
	for o := range x.Outcomes {
		fw.TallyOutcome(o)
	}
	if x.Executions > 1 {
		fw.TallyOutcome("several-map-orders")
	}
	fw.TallyNontrivial()
	return nil
}

// storable: every key of the block (recursively) has a unique exported assignable counterpart
// among plain kinds, no nil values, no collisions.
func storable(v reflect.Value, b bcl.Block) bool {
	if v.Kind() != reflect.Struct {
		return false
	}
	t := v.Type()
	claimed := map[string]bool{}
	one := func(key string, val any) bool {
		f, ok := counterpart(t, key)
		if !ok || !f.IsExported() || claimed[f.Name] || len(f.Index) != 1 || val == nil {
			return false
		}
		claimed[f.Name] = true
		if inner, isBlock := val.(bcl.Block); isBlock {
			return f.Type.Kind() == reflect.Struct && f.Type != reflect.TypeOf(bcl.Block{}) && storable(v.FieldByIndex(f.Index), inner) &&
				(f.Type.Name() == "" || fold(f.Type.Name()) == fold(inner.Type))
		}
		return reflect.TypeOf(val).AssignableTo(f.Type)
	}
	if b.Name != "" && !one("Name", b.Name) {
		return false
	}
	if b.Name == "" {
		// the (empty) name is stored too when a Name field exists: only a string field takes it
		if f, ok := counterpart(t, "Name"); ok {
			if f.Type.Kind() != reflect.String || !f.IsExported() || len(f.Index) != 1 {
				return false
			}
			claimed[f.Name] = true
		}
	}
	for k, val := range b.Fields {
		if !one(k, val) {
			return false
		}
	}
	return true
}

var subC15 = &fw.Sub{Name: "c15.bind", New: func() fw.Case { return &c15Case{} }, Exec: func(cs fw.Case) *fw.Fail {
	return fw.Guard(func() *fw.Fail { return c15Exec(cs, false) })
}}

// the same space judged for C16(a): the outcome must be identical for every map iteration order
var subC16Map = &fw.Sub{Name: "c16.maporder", New: func() fw.Case { return &c15Case{} }, Exec: func(cs fw.Case) *fw.Fail {
	return fw.Guard(func() *fw.Fail { return c15Exec(cs, true) })
}}

func init() {
	fw.Register(&fw.Check{
		ID:    "C15",
		Level: "model_checking",
		Rule: "bindings built directly as Go values (nil, struct binding, slice bindings of 0-2 blocks; blocks with <=2 fields over 11 keys {x X y foo_bar in in.p emb z Name name żądło} and 17 values {int, float, string, bool, nil, int32, nested blocks named/unnamed/deep, a block with a nil Fields map, struct values that are not Blocks (struct{}, time.Time, a user struct, a type derived from Block), *Block, a slice, a map}; pointers (nil and not) to the binding types and wrappers embedding the Binding interface) crossed with ~1000 targets (nil, non-pointers, nil pointers, pointer to pointer, pointers to every Go kind, slices of non-structs and of pointers, hand-declared structs with embedded / embedded-pointer / unexported / tagged / colliding fields, generated structs with 1-2 fields over 20 field kinds). " +
			"For each pair EVERY map iteration order of every range-over-map inside Bind is explored through the map-order choice point of the rewritten package. Oracle on every order: never panics; nil only if an independent matcher finds every key (and the name) stored unchanged in a distinct exported assignable field; on error a slice target is unchanged; fully storable plain cases must succeed. Sub-check c15.keys: keys that differ from a field name in one byte (every position x 12 byte variants, and one byte added in front / behind), keys and field names of every length 1..80 (thorough 300) spelled exactly / with one typo / longer / shorter, nested blocks 1..40 (thorough 120) levels deep into equally deep structs with a right / missing / mistyped innermost entry: judged by the same independent matcher. Plus every history of 2 (thorough 3) Bind calls over three distinct struct types that print the same name but differ in layout and tags (state carried between calls).",
		Subs:           []*fw.Sub{subC15, subC15Hist, subC15Keys},
		BudgetQuick:    100,
		BudgetThorough: 1500,
		Assumptions:    []string{"struct targets with more than 2 generated fields and blocks with more than 2 fields are outside the bound, except the wide family (8/9/10/17 keys on three nesting levels), for which only the first 300 map orders per pair are explored"},
		Run: func(c *fw.Ctx) {
			c15Tables()
			c15Histories(c)
			for _, kc := range c15KeysCases(c.Thorough()) {
				c.Do(subC15Keys, kc)
			}
			bs := c15Bindings(c.Quick())
			ts := c15Targets()
			c.Bound("bindings", len(bs))
			c.Bound("targets", len(ts))
			for ti, t := range ts {
				for bi, b := range bs {
					_, _ = ti, bi
					// wide bindings meet the wide targets and a few others only; wide targets meet every binding
					if strings.Contains(b.name, "wide") && !strings.Contains(t.name, "wide") && ti%97 != 0 {
						continue
					}
					c.Do(subC15, &c15Case{B: b.name, T: t.name})
				}
				if c.Expired() {
					c.Cap("deadline")
					return
				}
			}
		},
		Finish: func(m *fw.Merged) []string {
			var v []string
			for _, o := range []string{"stored", "error", "several-map-orders"} {
				if m.Outcomes[o] == 0 {
					v = append(v, "vacuous: outcome class never observed: "+o)
				}
			}
			m.Extra["map_orders"] = m.Counters["map_orders"]
			return v
		},
	})
}

// ---------------------------------------------------------------- histories over same-named types

// Three distinct struct types that print the same name ("checks.Rec") but have different
// layouts and tags: a cache keyed by the printed type name would confuse them.
func localRecA() any {
	type Rec struct {
		A int `bcl:"x"`
		B string
	}
	return &Rec{}
}
func localRecB() any {
	type Rec struct {
		B string
		C int `bcl:"y"`
		A int `bcl:"x"`
	}
	return &Rec{}
}
func localRecC() any {
	type Rec struct {
		X int
		Y int `bcl:"b"`
	}
	return &Rec{}
}

var c15RecTargets = []func() any{localRecA, localRecB, localRecC}

var c15RecBlocks = []map[string]any{
	{"x": 1}, {"y": 2}, {"x": 1, "y": 2}, {"b": "s"}, {"b": 3}, {"x": 1, "b": "s"}, {"a": 5}, {"c": 6, "x": 7},
}

type c15Hist struct {
	Steps [][2]int `json:"steps"` // (target index, block index) executed in order in one process state
}

func (c *c15Hist) Key() string { return fmt.Sprint(c.Steps) }

var subC15Hist = &fw.Sub{Name: "c15.history", New: func() fw.Case { return &c15Hist{} }, Exec: func(cs fw.Case) *fw.Fail {
	c := cs.(*c15Hist)
	return fw.Guard(func() *fw.Fail {
		var hist []string
		for _, st := range c.Steps {
			target := c15RecTargets[st[0]]()
			fields := map[string]any{}
			for k, v := range c15RecBlocks[st[1]] {
				fields[k] = v
			}
			blk := bcl.Block{Type: "rec", Fields: fields}
			hist = append(hist, fmt.Sprintf("Bind(%T#%d, %v)", target, st[0], fields))
			err := bcl.Bind(target, bcl.StructBinding{Value: blk})
			tv := reflect.ValueOf(target).Elem()
			if err == nil {
				if msg := notStored(tv, blk); msg != "" {
					return fw.Failf("nil only if everything is stored, whatever was bound before", "after %v: Bind returned nil although %s (target now %+v)", hist, msg, tv.Interface())
				}
			} else if storable(reflect.New(tv.Type()).Elem(), blk) {
				return fw.Failf("a fully storable block binds, whatever was bound before", "after %v: %v", hist, err)
			}
		}
		fw.TallyOutcome("history-ok")
		fw.TallyNontrivial()
		return nil
	})
}}

func c15Histories(c *fw.Ctx) {
	n := len(c15RecTargets) * len(c15RecBlocks)
	for a := 0; a < n; a++ {
		for b := 0; b < n; b++ {
			c.Do(subC15Hist, &c15Hist{Steps: [][2]int{{a / len(c15RecBlocks), a % len(c15RecBlocks)}, {b / len(c15RecBlocks), b % len(c15RecBlocks)}}})
			if c.Thorough() {
				for d := 0; d < n; d += 5 {
					c.Do(subC15Hist, &c15Hist{Steps: [][2]int{{a / len(c15RecBlocks), a % len(c15RecBlocks)}, {b / len(c15RecBlocks), b % len(c15RecBlocks)}, {d / len(c15RecBlocks), d % len(c15RecBlocks)}}})
				}
			}
		}
	}
}
