package checks

import (
	"bytes"
	"fmt"

	"github.com/wkhere/bcl"
	"strings"

	"verif/mc/fw"
	"verif/mc/gen"
	"verif/mc/impl"
	"verif/mc/ref"
)

// C17 — the parser accepts exactly the grammar and reports what it rejects.

// c17Extra: literals at the edges of the int/float ranges in every base, comments with each terminator,
// characters that are layout (tab, CR, VT, FF, U+0085, U+00A0) and characters that merely look like it.
var c17Extra = []string{"9223372036854775807", "9223372036854775808", "18446744073709551615", "18446744073709551616",
	"0x7FFFFFFFFFFFFFFF", "0x8000000000000000", "0XFFFFFFFFFFFFFFFF", "0777777777777777777777", "01000000000000000000000", "01777777777777777777777",
	`"a\\"`, `"\\"`, `"c:\\d\\"`, `"\\\""`, "print_x", "nil_", "or_1", "def_x", "not_y", "true_", "1e308", "1e309", "# c\r", "# c\n", "#\r", "# c", "\t", "\r", "\v", "\f", "\u0085", "\u00a0", "\u1680", "\u2003", "\u2028", "\u202f", "\u3000", "\ufeff"}

// c17.accept: the differential comparison of every check (compareRun), and in addition: the verdict does not
// depend on the introspection options — a source the plain call rejects is rejected (non-nil error, nil results)
// with every combination of statistics / disassembly / trace too.
var subC17 = &fw.Sub{Name: "c17.accept", New: func() fw.Case { return &progCase{} }, Exec: func(cs fw.Case) *fw.Fail {
	if f := refExec(cs); f != nil {
		return f
	}
	c := cs.(*progCase)
	if len(c.Src) > 400 {
		return nil
	}
	return fw.Guard(func() *fw.Fail {
		in := []byte(c.Src)
		var o0, l0 bytes.Buffer
		_, err0 := bcl.Parse(in, "input", bcl.OptOutput(&o0), bcl.OptLogger(&l0))
		if err0 == nil {
			return nil
		}
		for mask := 1; mask < 8; mask++ {
			var out, log bytes.Buffer
			opts := []bcl.Option{bcl.OptOutput(&out), bcl.OptLogger(&log), bcl.OptStats(mask&1 != 0), bcl.OptDisasm(mask&2 != 0), bcl.OptTrace(mask&4 != 0)}
			_, err := bcl.Parse(in, "input", opts...)
			if err == nil {
				return fw.Failf("a rejected source is rejected (non-nil error) whatever the options", "Parse with stats=%v disasm=%v trace=%v returns a nil error", mask&1 != 0, mask&2 != 0, mask&4 != 0)
			}
			if log.String() != l0.String() {
				return fw.Failf(fmt.Sprintf("same diagnostics with stats=%v disasm=%v trace=%v: %q", mask&1 != 0, mask&2 != 0, mask&4 != 0, l0.String()), "%q", log.String())
			}
			bl, bi, ierr := bcl.Interpret(in, opts...)
			if ierr == nil || bl != nil || bi != nil {
				return fw.Failf("Interpret of a rejected source returns an error and nil results whatever the options", "stats=%v disasm=%v trace=%v: err=%v blocks=%d binding nil=%v", mask&1 != 0, mask&2 != 0, mask&4 != 0, ierr, len(bl), bi == nil)
			}
		}
		fw.TallyOutcome("rejected-with-every-option")
		return nil
	})
}}

// vocabulary: one spelling per token kind + the contextual identifiers of bind + an invalid literal
var c17Toks = []string{"var", "def", "eval", "print", "bind", "x", "y", "first", "all", "struct", "slice",
	"1", "2", `"s"`, "=", "{", "}", "(", ")", "==", "+", "-", "not", "and", "or", ":", "->", ";", "08", `"\q"`, "01", "0x1", `"%d%s"`}

// c17.nohide: S1 with a syntax error, then S2 (starting with var/def/eval/print) with
// its own error: S2 must get a diagnostic of its own.
type c17Pair struct {
	S1 string `json:"s1"`
	S2 string `json:"s2"`
}

func (c *c17Pair) Key() string { return c.S1 + " \x01 " + c.S2 }

var subC17NoHide = &fw.Sub{
	Name: "c17.nohide",
	New:  func() fw.Case { return &c17Pair{} },
	Exec: func(cs fw.Case) *fw.Fail {
		c := cs.(*c17Pair)
		src := c.S1 + "\n" + c.S2
		s2start := len(c.S1) + 1
		// applicability, decided by the reference: S1 alone has a *syntax* error whose offending
		// token lies inside S1 (not "at end"), and S2 alone is rejected
		_, d1 := ref.Parse(c.S1)
		_, d2 := ref.Parse(c.S2)
		if d1 == nil || d2 == nil || d1.Class != "syntax" || d2.Class == "lexical" {
			fw.TallyOutcome("not-applicable")
			return nil
		}
		_, dAll := ref.Parse(src)
		if dAll == nil || dAll.Class == "lexical" {
			fw.TallyOutcome("not-applicable")
			return nil
		}
		sub := "error-inside-s1"
		if dAll.Off > s2start {
			// S1's missing part is noticed only at S2's keyword
			sub = "error-at-s2-keyword"
		}
		return fw.Guard(func() *fw.Fail {
			r := impl.Interpret(src)
			diags, _, malformed := splitLog(src, r.Log)
			if len(malformed) > 0 {
				return fw.Failf("well-formed log", "%q", malformed[0])
			}
			if r.Err == nil || len(diags) == 0 {
				return fw.Failf("rejected with diagnostics", "%s", r.Summary())
			}
			s2kwEnd := s2start + len(strings.Fields(c.S2)[0])
			own := 0
			for _, d := range diags {
				if !d.OffOK {
					return fw.Failf("valid positions", "%q", d.Raw)
				}
				// a diagnostic of S2's own: located after S2's keyword
				if d.Off > s2kwEnd || (d.Off == s2kwEnd && strings.HasPrefix(d.Rest, " at end: ")) {
					own++
				}
			}
			if own == 0 {
				return fw.Failf(fmt.Sprintf("a diagnostic located inside the later statement %q (%s)", c.S2, sub), "log %q", r.Log)
			}
			fw.TallyOutcome("later-error-reported:" + sub)
			fw.TallyNontrivial()
			return nil
		})
	},
}

// small expression and statement alphabets for grammar sentences
var c17Exprs = []string{"1", "x", "1 + 2", "( 1 )", "- 1", "not 1", "x = 1", "1 and 2", `"s" == 2`}

func c17Statements() (simple []string, all []string) {
	simple = append(simple, "var x", "var y = 1")
	for _, e := range c17Exprs {
		simple = append(simple, "eval "+e, "print "+e)
	}
	simple = append(simple, "var x = x = 1", "bind a -> struct", "bind a : first -> slice", "bind a : all -> slice", "bind a : 1 -> struct")
	all = append(all, simple...)
	var bodies []string
	bodies = append(bodies, "")
	bodies = append(bodies, simple...)
	bodies = append(bodies, c17Exprs...)
	bodies = append(bodies, "x = 1 ; y = 2", "var x = 1 x = 2", "def c { }", `def c "n" { y = 1 }`, "1 ;")
	for _, b := range bodies {
		all = append(all, "def a { "+b+" }", `def a "s" { `+b+" }")
	}
	return
}

func init() {
	fw.Register(&fw.Check{
		ID:    "C17",
		Level: "model_checking",
		Rule: "bounded-exhaustive: (a) every token string of length <=L (quick 4, thorough 5) over a 33-token vocabulary (one spelling per token kind, bind's contextual identifiers, an invalid literal) at toplevel and inside `def a { }`, and every string of length <=3 over that vocabulary extended by 38 symbols: strings ending in escaped backslashes, identifiers that begin with a keyword (print_x, nil_, or_1 ...), boundary literals (2^63-1, 2^63, 2^64-1, 2^64 in decimal / hex / octal, 1e308, 1e309), comments ended by CR / LF / end of input, and layout and look-alike space characters; " +
			"(b) grammar sentences (every statement form, 9 expression shapes, bodies, nesting <=2; singles and ordered pairs with and without ';') and every single-token delete / insert / replace / transpose at every position; " +
			"(c) pairs S1 S2 where S1 is a var/eval/print statement with every one-token fault and S2 starts with var/def/eval/print and has its own fault. Oracle: reference recursive-descent parser accepts <=> Parse accepts <=> log empty; " +
			"rejection => nil results, >=1 well-formed diagnostic, first diagnostic at the reference's first offending token; (c) a diagnostic located inside S2.",
		Subs:           []*fw.Sub{subC17, subC17NoHide},
		BudgetQuick:    100,
		BudgetThorough: 1800,
		Assumptions:    []string{"grammar = DESIGN.md appendix A (README syntax + property statement); recovery inside blocks is best effort and not checked beyond the first diagnostic"},
		Run: func(c *fw.Ctx) {
			do := func(src string) bool {
				c.Do(subC17, &progCase{Src: src})
				return !c.Expired()
			}
			// the implementation limits are part of what is accepted: programs just below / at / above each limit (nesting 15..18,
			// 1022..1025 variables, operand depth 1022..1026) are accepted or refused exactly as the reference says
			for _, sc := range gen.ScaledFamilies(false) {
				if strings.HasPrefix(sc.Name, "nest-") || strings.HasPrefix(sc.Name, "nestthen-") || strings.HasPrefix(sc.Name, "vars-") || strings.HasPrefix(sc.Name, "stackdepth-") {
					do(sc.Src)
				}
			}
			simple, all := c17Statements()
			// (b) sentences and their mutations
			mutate := func(src string) bool {
				do(src)
				return gen.Deviations(src, c17Toks, nil, func(d string) bool { return do(d) })
			}
			for _, s := range all {
				if !mutate(s) {
					c.Cap("deadline in (b)")
					return
				}
			}
			pairSet := simple
			if c.Thorough() {
				pairSet = all
			}
			for _, s1 := range pairSet {
				for _, s2 := range simple {
					for _, sep := range []string{" ", " ; "} {
						if c.Quick() && !(do(s1 + sep + s2)) {
							return
						}
						if c.Thorough() && !mutate(s1+sep+s2) {
							c.Cap("deadline in (b) pairs")
							return
						}
					}
				}
			}
			// (b') an assignment at every operand position of every operator: allowed only at the start of an
			// expression, of a parenthesis or of another assignment's right side
			for _, op := range gen.BinOps {
				forms := []string{"1 " + op + " x = 2", "1 " + op + " x = 2 " + op + " 3", "x = 1 " + op + " 2", "1 " + op + " ( x = 2 )", "x = y = 1 " + op + " 2",
					"( x = 1 ) " + op + " 2", "x " + op + " y = 2", "1 " + op + " 2 " + op + " x = 3", "1 " + op + " not x = 2", "1 " + op + " - x = 2", "x = 1 " + op + " y = 2"}
				for _, f := range forms {
					do("var x ; var y ; print " + f)
					do("var x ; var y ; eval " + f)
					do("var x ; var y = " + f)
					do("def a { " + f + " }")
					do("def a { print " + f + " }")
				}
			}
			for _, p := range gen.PreOps {
				for _, f := range []string{p + " x = 1", p + " ( x = 1 )", "x = " + p + " 1", p + " " + p + " x = 1", "( " + p + " x ) = 1"} {
					do("var x ; print " + f)
					do("def a { " + f + " }")
				}
			}
			// (c) no-hide pairs
			s1base := []string{"var x = 1", "var y", "eval 1 + 2", "print ( 1 )", "print 1", "eval - 1", "var z = 1 and 2"}
			s2set := []string{"var 1", "print )", "eval +", "def {", "var y = )", "print ( 2", "def a { ) }", "print 1 +", "eval ( = 1", "var", "def a", "print 08"}
			for _, b := range s1base {
				gen.Deviations(b, c17Toks, nil, func(d string) bool {
					for _, s2 := range s2set {
						c.Do(subC17NoHide, &c17Pair{S1: d, S2: s2})
					}
					return true
				})
			}
			// (c') the later statement comes behind MANY faulty ones (a parser may tire of reporting, never of checking)
			for _, fault := range []string{"print )", "var 1", "eval +", "def a { ) }", "print 1 +", "var y = )"} {
				for _, n := range []int{2, 3, 8, 9, 10, 11, 12, 15, 16, 17, 31, 32, 33, 50, 100, 255, 256, 257, 1000} {
					s1 := strings.TrimSuffix(strings.Repeat(fault+"\n", n), "\n")
					for _, s2 := range s2set {
						c.Do(subC17NoHide, &c17Pair{S1: s1, S2: s2})
					}
				}
			}
			// (a') token strings of length <=3 over the vocabulary extended by boundary literals, comments ended
			// by CR / LF / nothing, and layout / non-layout space characters (joined by one ordinary space, so each
			// of them also sits next to ordinary layout)
			ext := append(append([]string{}, c17Toks...), c17Extra...)
			for n := 1; n <= 3; n++ {
				for _, ctx := range []struct{ pre, post string }{{"", ""}, {"def a { ", " }"}} {
					ok := allStrings(ext, n, " ", func(s string) bool {
						special := false
						for _, x := range c17Extra {
							if strings.Contains(s, x) {
								special = true
								break
							}
						}
						if !special {
							return true
						}
						return do(ctx.pre + s + ctx.post)
					})
					if !ok {
						c.Cap(fmt.Sprintf("deadline during extended token strings of length %d", n))
						return
					}
				}
			}
			// (a) token strings
			maxN := 4
			if c.Thorough() {
				maxN = 5
			}
			for n := 1; n <= maxN; n++ {
				for _, ctx := range []struct{ pre, post string }{{"", ""}, {"def a { ", " }"}} {
					ok := allStrings(c17Toks, n, " ", func(s string) bool { return do(ctx.pre + s + ctx.post) })
					if !ok {
						c.Cap(fmt.Sprintf("deadline during token strings of length %d", n))
						return
					}
				}
				c.Bound("token_string_length_completed", n)
			}
		},
		Finish: func(m *fw.Merged) []string {
			var v []string
			for _, o := range []string{"accepted-ok", "rejected:syntax", "rejected:literal", "rejected:assign-target", "rejected:selector", "later-error-reported:error-inside-s1"} {
				if m.Outcomes[o] == 0 {
					v = append(v, "vacuous: outcome class never observed: "+o)
				}
			}
			return v
		},
	})
}
