package checks

import (
	"bufio"
	"bytes"
	"encoding/json"
	"fmt"
	"os"
	"os/exec"
	"path/filepath"
	"regexp"
	"strings"

	"github.com/wkhere/bcl"

	"verif/mc/fw"
	"verif/mc/impl"
	"verif/mc/vsched"
)

// C12 — concurrent internals and concurrent callers are free of data races.
// Deciding step: happens-before race detection (vector clocks over the program's own
// synchronisation) on EVERY schedule up to a preemption bound, on the package rewritten so
// that accesses to package-level variables, fields of bcl's struct types and captured
// locals are logged. Supplementary (labelled sampling): the same bodies free-running under
// the Go race detector.

type c12Case struct {
	Scenario string        `json:"scenario"`
	A        string        `json:"a"`
	B        string        `json:"b,omitempty"`
	Script   []impl.Answer `json:"script,omitempty"`
	Bound    int           `json:"bound"`
	Delay    bool          `json:"delay,omitempty"` // delay bounding (every non-default choice counts) instead of preemption bounding
	Shard    int           `json:"shard,omitempty"` // this case explores the Shard-th of Shards parts of the schedule tree
	Shards   int           `json:"shards,omitempty"`
	// Cold: explored in a process that has done nothing else before (every package-level variable in its
	// initial state); races, panics and deadlocks only
	Cold bool `json:"cold,omitempty"`
}

func (c *c12Case) Key() string {
	k := fmt.Sprintf("%s|%q|%q|%v|%d|%v|%d/%d", c.Scenario, c.A, c.B, c.Script, c.Bound, c.Delay, c.Shard, c.Shards)
	if c.Cold {
		k += "|cold"
	}
	return k
}

// lockedBuf is an output writer that is safe for concurrent use (its lock is visible to the scheduler).
type lockedBuf struct {
	mu  vsched.Mu
	buf bytes.Buffer
}

func (l *lockedBuf) Write(p []byte) (int, error) {
	l.mu.Lock()
	defer l.mu.Unlock()
	return l.buf.Write(p)
}

// raceWriter is a caller-side writer whose accesses are visible to the race oracle.
type raceWriter struct {
	mark int
	buf  bytes.Buffer
}

func (w *raceWriter) Write(p []byte) (int, error) {
	*vsched.W(&w.mark)++
	return w.buf.Write(p)
}

func (w *raceWriter) String() string {
	_ = *vsched.R(&w.mark)
	return w.buf.String()
}

// c12Body returns the concurrent body and a function giving the observation string of its calls.
func c12Body(c *c12Case, results *[2]string) func() {
	par := func(f0, f1 func() string) func() {
		return func() {
			var wg vsched.WG
			wg.Add(2)
			vsched.Go(func() { results[0] = f0(); wg.Done() })
			vsched.Go(func() { results[1] = f1(); wg.Done() })
			wg.Wait()
		}
	}
	parseObsStr := func(p impl.Parsed) string {
		o := parseObs{errs: p.Err != nil, log: p.Log}
		if p.Err == nil {
			o.dump, _ = impl.Dump(p.Prog)
		}
		return fmt.Sprintf("errs=%v log=%q dump=%x", o.errs, o.log, o.dump)
	}
	switch c.Scenario {
	case "pipeline":
		return func() {
			// the caller's writers are plain (unsynchronised) buffers: the caller reads them once the call
			// has returned, so any write by a goroutine of the call must happen-before the return
			out, log := &raceWriter{}, &raceWriter{}
			p, err := bcl.ParseFile(impl.NewScriptFile(c.A, c.Script), bcl.OptOutput(out), bcl.OptLogger(log))
			results[0] = parseObsStr(impl.Parsed{Prog: p, Err: err, Log: log.String(), Out: out.String()})
		}
	case "parse2":
		return par(func() string { return parseObsStr(impl.Parse(c.A)) }, func() string { return parseObsStr(impl.Parse(c.B)) })
	case "parsefile2":
		return par(func() string { return parseObsStr(impl.ParseFile(impl.NewScriptFile(c.A, c.Script))) },
			func() string { return parseObsStr(impl.ParseFile(impl.NewScriptFile(c.B, c.Script))) })
	case "defaults2":
		// two independent calls that pass NO output / logger option (the library's defaults are process-wide)
		return par(func() string {
			bl, bi, err := bcl.Interpret([]byte(c.A))
			return impl.Ran{Blocks: bl, Binding: bi, Err: err}.Summary()
		}, func() string {
			bl, bi, err := bcl.Interpret([]byte(c.B))
			return impl.Ran{Blocks: bl, Binding: bi, Err: err}.Summary()
		})
	case "loadbufio2":
		// each caller loads two programs one after the other from its OWN *bufio.Reader (8 KiB) holding two dumps
		return func() {
			d, ok := dumpOf(c.A)
			if !ok {
				results[0], results[1] = "rejected", "rejected"
				return
			}
			ld := func() string {
				br := bufio.NewReaderSize(bytes.NewReader(append(append([]byte{}, d...), d...)), 8192)
				var sb strings.Builder
				for i := 0; i < 2; i++ {
					var out, log bytes.Buffer
					p, err := bcl.LoadProg(br, "n", bcl.OptOutput(&out), bcl.OptLogger(&log))
					if err != nil {
						fmt.Fprintf(&sb, "load%d err=%v ", i, err)
						continue
					}
					bl, bi, xerr := bcl.Execute(p)
					sb.WriteString(impl.Ran{Blocks: bl, Binding: bi, Err: xerr, Out: out.String()}.Summary() + " ")
				}
				return sb.String()
			}
			par(ld, ld)()
		}
	case "introspect2":
		// two independent calls with disassembly, trace and statistics on, each into writers of its own
		return par(func() string {
			return impl.Interpret(c.A, bcl.OptDisasm(true), bcl.OptTrace(true), bcl.OptStats(true)).Summary()
		},
			func() string {
				return impl.Interpret(c.B, bcl.OptDisasm(true), bcl.OptTrace(true), bcl.OptStats(true)).Summary()
			})
	case "interpret2":
		return par(func() string { return impl.Interpret(c.A).Summary() }, func() string { return impl.Interpret(c.B).Summary() })
	case "opts2":
		// two callers pass the SAME options slice (with spare capacity, as `common...`) and their own names / inputs
		return func() {
			common := make([]bcl.Option, 0, 8)
			common = append(common, bcl.OptOutput(&lockedBuf{}), bcl.OptLogger(&lockedBuf{}))
			dumpA, _ := dumpOf(c.A)
			one := func(src, name string, dump []byte) func() string {
				return func() string {
					var sb strings.Builder
					p, err := bcl.Parse([]byte(src), name+"-parse", common...)
					if err == nil {
						d, _ := impl.Dump(p)
						fmt.Fprintf(&sb, "parse=%x ", d)
					}
					p, err = bcl.ParseFile(impl.NewScriptFile(src, impl.Chunks(5)), common...)
					if err == nil {
						d, _ := impl.Dump(p)
						fmt.Fprintf(&sb, "parsefile=%x ", d)
					}
					if dump != nil {
						p, err = bcl.LoadProg(bytes.NewReader(dump), name+"-load", common...)
						if err == nil {
							d, _ := impl.Dump(p)
							fmt.Fprintf(&sb, "load=%x ", d)
						}
					}
					return sb.String()
				}
			}
			par(one(c.A, "caller-a", dumpA), one(c.B, "caller-b", dumpA))()
		}
	case "exec2opts":
		// one shared Prog, every caller passes its own logger / output / options to Execute
		return func() {
			// the Prog's own writers are shared by the callers, hence locked
			p, err := bcl.Parse([]byte(c.A), "input", bcl.OptOutput(&lockedBuf{}), bcl.OptLogger(&lockedBuf{}))
			if err != nil {
				results[0], results[1] = "rejected", "rejected"
				return
			}
			run := func(opts ...bcl.Option) func() string {
				return func() string {
					var out, log bytes.Buffer
					bl, bi, err := bcl.Execute(p, append(opts, bcl.OptOutput(&out), bcl.OptLogger(&log))...)
					return impl.Ran{Blocks: bl, Binding: bi, Err: err, Out: out.String(), Log: log.String()}.Summary()
				}
			}
			par(run(), run(bcl.OptStats(true)))()
		}
	case "exec2", "execdump":
		return func() {
			out := &lockedBuf{}
			var log bytes.Buffer
			p, err := bcl.Parse([]byte(c.A), "input", bcl.OptOutput(out), bcl.OptLogger(&log))
			if err != nil {
				results[0], results[1] = "rejected", "rejected"
				return
			}
			run := func() string {
				bl, bi, err := bcl.Execute(p)
				return impl.Ran{Blocks: bl, Binding: bi, Err: err}.Summary()
			}
			second := run
			if c.Scenario == "execdump" {
				second = func() string {
					d, err := impl.Dump(p)
					return fmt.Sprintf("dump=%x err=%v", d, err)
				}
			}
			par(run, second)()
		}
	case "unmarshal2":
		um := func(src string) func() string {
			return func() string {
				var t c11Target
				var out, log bytes.Buffer
				err := bcl.Unmarshal([]byte(src), &t, bcl.OptOutput(&out), bcl.OptLogger(&log))
				return fmt.Sprintf("%+v err=%v out=%q log=%q", t, err, out.String(), log.String())
			}
		}
		return par(um(c.A), um(c.B))
	case "load2":
		return func() {
			d, ok := dumpOf(c.A)
			if !ok {
				results[0], results[1] = "rejected", "rejected"
				return
			}
			ld := func() string {
				r, err := impl.LoadExec(d)
				return fmt.Sprintf("%s loaderr=%v", r.Summary(), err)
			}
			par(ld, ld)()
		}
	case "dump2":
		return func() {
			p := impl.Parse(c.A)
			if p.Err != nil {
				results[0], results[1] = "rejected", "rejected"
				return
			}
			dd := func() string { d, err := impl.Dump(p.Prog); return fmt.Sprintf("%x %v", d, err) }
			par(dd, dd)()
		}
	case "bind2":
		return func() {
			r := impl.Interpret(c.A)
			bindOne := func() string {
				var t c11Target
				err := bcl.Bind(&t, r.Binding)
				return fmt.Sprintf("%+v err=%v", t, err)
			}
			par(bindOne, bindOne)()
		}
	}
	return func() {}
}

func c12Exec(cs fw.Case) *fw.Fail {
	c := cs.(*c12Case)
	if f := requireInstrumented(); f != nil {
		return f
	}
	// sequential reference results: computed only after the first explored execution has been judged for
	// races, so that state which the package builds on first use (a cache, a growing scratch buffer) is
	// built INSIDE a scheduled execution at least once per process
	var seq [2]string
	seqKnown := c.Cold
	computeSeq := func() {
		var r [2]string
		body := c12Body(c, &r)
		// run the same body outside the scheduler: Go() is then a plain goroutine, WG a plain wait
		body()
		seq = r
		seqKnown = true
	}
	var res [2]string
	body := func() {
		res = [2]string{}
		c12Body(c, &res)()
	}
	events := 0
	check := func(e *vsched.Exec) (string, string) {
		events += e.AccessEvents()
		if len(e.Panics) > 0 {
			return "panic", "panic: " + strings.Join(e.Panics, "; ")
		}
		if e.Deadlock {
			return "deadlock", "deadlock: " + strings.Join(e.Leaked, "; ")
		}
		if rs := e.Races(); len(rs) > 0 {
			var s []string
			for _, r := range rs {
				s = append(s, r.First+"  <->  "+r.Second)
			}
			return "race", "data race (unordered conflicting accesses): " + strings.Join(s, "; ")
		}
		if c.Cold {
			return "race-free", ""
		}
		if !seqKnown {
			got := res
			computeSeq()
			res = got
		}
		if res != seq {
			return "influence", fmt.Sprintf("results of the concurrent calls differ from their sequential results:\n  concurrent: %q\n  sequential: %q", res, seq)
		}
		return "race-free", ""
	}
	total := 0
	var steps int64
	for b := 0; b <= c.Bound; b++ {
		x := &vsched.Explorer{Bound: b, Delay: c.Delay, RootShard: c.Shard, RootShards: c.Shards, NoConfirm: c.Cold, Opt: vsched.Options{Races: true}, Body: body, Check: check, Stop: func() bool { fw.Heartbeat(); return fw.Cur != nil && fw.Cur.Expired() }, MaxExec: maxExecPerCase()}
		x.Explore()
		total = x.Executions
		steps = x.Steps + int64(x.Executions)
		if x.Infra != "" {
			return fw.Failf("deterministic replay under the scheduler", "INFRA %s (schedule %v)", x.Infra, x.FailTrace)
		}
		if x.Fail != "" {
			return fw.Failf("no data race and no mutual influence on any schedule", "preemption bound %d, schedule %v: %s", b, x.FailTrace, x.Fail)
		}
		if x.Capped {
			fw.Tally("capped_explorations", 1)
			if fw.Cur != nil {
				fw.Cur.Cap(fmt.Sprintf("scenario %s: schedule cap reached at preemption bound %d (bound %d completed)", c.Scenario, b, b-1))
			}
			break
		}
	}
	fw.Tally("schedules", int64(total))
	fw.Tally("states", int64(total))
	fw.Tally("transitions", steps)
	fw.Tally("traces_validated", int64(total))
	fw.Tally("race_events", int64(events))
	if c.Cold {
		// (in the child process) report the counts to the parent
		fmt.Printf("COLD-OK %d %d %d\n", total, steps, events)
		return nil
	}
	fw.TallyOutcome("race-free:" + c.Scenario)
	if events > 0 {
		fw.TallyNontrivial()
	}
	return nil
}

// subC12Cold runs one scenario in a fresh process.
var subC12Cold = &fw.Sub{Name: "c12.cold", New: func() fw.Case { return &c12Case{} }, Exec: func(cs fw.Case) *fw.Fail {
	c := cs.(*c12Case)
	js, _ := json.Marshal(c)
	cmd := exec.Command(os.Args[0], "c12-cold")
	cmd.Stdin = bytes.NewReader(js)
	var out bytes.Buffer
	cmd.Stdout = &out
	cmd.Stderr = &out
	err := cmd.Run()
	txt := out.String()
	if i := strings.Index(txt, "COLD-FAIL "); i >= 0 {
		return fw.Failf("no data race, panic or deadlock on any schedule of a process that starts cold", "%s", strings.TrimSpace(txt[i+len("COLD-FAIL "):]))
	}
	var total, steps, events int64
	if i := strings.Index(txt, "COLD-OK "); i >= 0 && err == nil {
		fmt.Sscan(txt[i+len("COLD-OK "):], &total, &steps, &events)
	} else {
		return fw.Failf("the fresh process completes", "err=%v output %q", err, fw.Trunc(txt, 400))
	}
	fw.Tally("schedules", total)
	fw.Tally("states", total)
	fw.Tally("transitions", steps)
	fw.Tally("traces_validated", total)
	fw.Tally("race_events", events)
	fw.Tally("cold_processes", 1)
	fw.TallyOutcome("race-free-cold:" + c.Scenario)
	if events > 0 {
		fw.TallyNontrivial()
	}
	return nil
}}

func init() {
	fw.Commands["c12-cold"] = func(args []string) int {
		var c c12Case
		if err := json.NewDecoder(os.Stdin).Decode(&c); err != nil {
			fmt.Println("bad case:", err)
			return 2
		}
		c.Cold = true
		if f := fw.Guard(func() *fw.Fail { return c12Exec(&c) }); f != nil {
			fmt.Printf("COLD-FAIL %s\n", strings.ReplaceAll(f.Observed, "\n", " "))
			return 0
		}
		return 0
	}
}

var subC12 = &fw.Sub{Name: "c12.races", New: func() fw.Case { return &c12Case{} }, Exec: func(cs fw.Case) *fw.Fail {
	return fw.Guard(func() *fw.Fail { return c12Exec(cs) })
}}

// c12Splitter deals every scenario's schedule tree over 8 cases so that the workers share it.
type c12Splitter struct{ *fw.Ctx }

func (s *c12Splitter) Do(sub *fw.Sub, cs *c12Case) {
	// once more in a process of its own, cold, with at most one preemption / delay
	cold := *cs
	cold.Cold = true
	if cold.Bound > 1 {
		cold.Bound = 1
	}
	s.Ctx.Do(subC12Cold, &cold)
	const parts = 8
	for k := 0; k < parts; k++ {
		cc := *cs
		cc.Shard, cc.Shards = k, parts
		s.Ctx.Do(sub, &cc)
	}
}

var raceFrameRe = regexp.MustCompile(`github\.com/wkhere/bcl[./(]`)

// c12Supplementary runs the free-running race-detector pass (sampling, not deciding).
func c12Supplementary(m *fw.Merged) []string {
	bin := filepath.Join(fw.WorkDir(), "racepass")
	if _, err := os.Stat(bin); err != nil {
		m.Extra["supplementary_race_runs"] = 0
		m.Extra["supplementary_note"] = "race-detector binary not built"
		return nil
	}
	runs := 0
	for _, procs := range []string{"2", "4", "16"} {
		cmd := exec.Command(bin)
		cmd.Env = append(os.Environ(), "GOMAXPROCS="+procs, "GORACE=halt_on_error=0 exitcode=0")
		var out bytes.Buffer
		cmd.Stdout = &out
		cmd.Stderr = &out
		err := cmd.Run()
		runs++
		txt := out.String()
		if err != nil && !strings.Contains(txt, "DATA RACE") {
			return []string{"supplementary race pass failed to run: " + err.Error() + ": " + fw.Trunc(txt, 300)}
		}
		for _, rep := range strings.Split(txt, "==================") {
			if strings.Contains(rep, "DATA RACE") && raceFrameRe.MatchString(rep) {
				key := "racepass"
				lines := strings.Split(rep, "\n")
				var frames []string
				for _, l := range lines {
					if raceFrameRe.MatchString(l) && len(frames) < 4 {
						frames = append(frames, strings.TrimSpace(l))
					}
				}
				m.Violations = append(m.Violations, &fw.Violation{Property: "C12", Sub: "c12.racepass", Key: key,
					Case: []byte(`{"run":"free-running race detector"}`), Expected: "no race report with a frame in package bcl (supplementary free-running pass)",
					Observed: "go race detector: " + strings.Join(frames, " | "), Reproduced: 1})
				m.ViolationsN++
				m.Extra["supplementary_race_runs"] = runs
				return nil
			}
		}
	}
	m.Extra["supplementary_race_runs"] = runs
	m.Extra["supplementary_note"] = "free-running Go race detector over the same harness bodies (sampling; not the deciding step)"
	return nil
}

func init() {
	fw.Register(&fw.Check{
		ID:    "C12",
		Level: "model_checking",
		Rule: "controlled-scheduler exploration with a happens-before race detector: the package is rewritten so that every access to a package-level variable, to an addressable field of a struct type of package bcl and to a captured local is logged; vector clocks advance only on the program's own synchronisation (channel send->receive, close->receive, go->start, unlock->lock, WaitGroup), not on scheduler hand-offs. " +
			"Harness bodies: (a) the ParseFile pipeline on multi-chunk inputs whose first chunk has syntax errors while later chunks hold newlines (parser formats diagnostics while the lexer appends line ends), valid multi-chunk input, early lexical failure; (b) two concurrent callers: Parse||Parse, ParseFile||ParseFile, Parse+ParseFile+LoadProg by two callers that pass one shared options slice with spare capacity, Interpret||Interpret on different inputs (also with disassembly, trace and statistics on), Unmarshal||Unmarshal, Interpret||Interpret without any output/logger option (process-wide defaults), LoadProg twice from a caller-owned *bufio.Reader by each of two callers, Execute||Execute (also with per-call loggers/outputs/options), Execute||Dump and Dump||Dump on one shared Prog with a locked output writer, LoadProg+Execute pairs, Bind||Bind. " +
			"ALL schedules with <=B preemptions (quick 1, thorough 2; Execute pairs B+1) are executed for the pipeline and the Execute/Dump/Bind pairs; the Parse/ParseFile/Interpret pairs (7-9 goroutines) use delay bounding: a deterministic scheduler plus every placement of <=B+1 deviations; on each: no unordered conflicting access pair, no deadlock/panic, and each call's result equals its sequential result. Every scenario is explored once more (<=1 preemption) in a process of its own that has done nothing before, so that state built on first use is built inside a scheduled execution.",
		Subs:           []*fw.Sub{subC12, subC12Cold},
		BudgetQuick:    100,
		BudgetThorough: 1500,
		Assumptions: []string{"a race is reported only if both accesses are instrumented (fields of bcl structs, package variables, captured locals; element accesses count as accesses of their holder); the supplementary free-running race-detector pass covers the rest by sampling",
			"memory orderings weaker than happens-before are not modelled"},
		Run: func(c0 *fw.Ctx) {
			c := &c12Splitter{c0}
			bound := 1
			if c.Thorough() {
				bound = 2
			}
			pipeInputs := []string{
				"print )\nprint 1\nprint )\n\nprint 2\n",
				"print )\nvar\n\n\nprint (\n",
				"var a = 1\nprint a\n\nprint a + 1\n",
				"print @\nprint 1\nprint 2\n",
				"def b {\n x = )\n}\n\nprint 1\n",
				// a block that closes a few tokens before a lexical failure
				"def b {\n x = 1\n}\nprint 1 @\nprint 2\n",
				"def a { def b { x = 1 } }\n\n\"open\n",
				// a syntax error followed at once by every unusual thing the lexer knows: look-alike spaces, CR line ends, comments,
				// escapes, number forms (whatever else the lexer does about them, it does it while the parser reports the error)
				"print )\nprint\u00a01\nprint\u00852\n",
				"print )\u00a0print )\u0085\nprint 3\n",
				"print )\r\n# c\rprint \"a\\tb\" + 0x1f + 1e3 + 010\r\n",
			}
			for _, in := range pipeInputs {
				n := len(in)
				for _, sc := range [][]impl.Answer{impl.Chunks(n/3, n/3), impl.Chunks(8, 8), impl.Chunks(n / 2), impl.Chunks(3, 5, 8)} {
					c.Do(subC12, &c12Case{Scenario: "pipeline", A: in, Script: sc, Bound: bound})
				}
				// a read error after some data was delivered (the parser is still busy with it)
				for _, sc := range [][]impl.Answer{{{N: 8}, {N: 0, Err: "boom"}}, {{N: 8}, {N: 8}, {N: 0, Err: "boom"}}, {{N: n / 2, Err: "boom"}}} {
					c.Do(subC12, &c12Case{Scenario: "pipeline", A: in, Script: sc, Bound: bound})
				}
			}
			pairs := [][2]string{
				{"var a = 1\nprint a\n", "def b { x = 2 }\nbind b -> struct"},
				{"print )\nprint 1\n", "print 1 +\n\"s\"\n"},
				{"def a { x = 1 }", "def a { x = 1 }"},
			}
			// both callers run into the same limit / the same kind of run-time error at different places
			nest := func(lines int) string {
				return strings.Repeat("\n", lines) + strings.Repeat("def b { ", 17) + "x=1" + strings.Repeat(" }", 17)
			}
			for _, p := range [][2]string{{nest(0), nest(3)}, {"print 1/0", "\n\nprint 2/0"}, {"print \"a\" * (0-1)", "\nprint \"b\" * (0-2)"}} {
				c.Do(subC12, &c12Case{Scenario: "interpret2", A: p[0], B: p[1], Bound: bound, Delay: true})
			}
			for _, p := range pairs {
				c.Do(subC12, &c12Case{Scenario: "opts2", A: p[0], B: p[1], Bound: bound, Delay: true})
				c.Do(subC12, &c12Case{Scenario: "parse2", A: p[0], B: p[1], Bound: bound + 1, Delay: true})
				c.Do(subC12, &c12Case{Scenario: "interpret2", A: p[0], B: p[1], Bound: bound + 1, Delay: true})
				c.Do(subC12, &c12Case{Scenario: "introspect2", A: p[0], B: p[1], Bound: bound, Delay: true})
				c.Do(subC12, &c12Case{Scenario: "parsefile2", A: p[0], B: p[1], Script: impl.Chunks(6), Bound: bound + 1, Delay: true})
			}
			for _, src := range []string{"var a = 1\nprint a + 1\ndef b \"n\" { x = a; print x }\nbind b -> struct", "print 1\nprint 1/0", "def a {x=1} def a {x=2}\nbind a:all -> slice\nbind a:last -> struct"} {
				c.Do(subC12, &c12Case{Scenario: "exec2", A: src, Bound: bound + 1})
				c.Do(subC12, &c12Case{Scenario: "execdump", A: src, Bound: bound + 1})
				c.Do(subC12, &c12Case{Scenario: "exec2opts", A: src, Bound: bound + 1})
			}
			c.Do(subC12, &c12Case{Scenario: "unmarshal2", A: "def c11target \"nm\" { x = 3 }\nbind c11target -> struct", B: "def c11target { x = 4; y = 5 }\nprint 1\nbind c11target -> struct", Bound: bound + 1, Delay: true})
			c.Do(subC12, &c12Case{Scenario: "load2", A: "var a = 1\nprint a + 1\ndef b \"n\" { x = a }\nbind b -> struct", Bound: bound + 1})
			c.Do(subC12, &c12Case{Scenario: "dump2", A: "var a = 1\nprint a + 1\ndef b \"n\" { x = a }\nbind b -> struct", Bound: bound + 1})
			// string constants longer than any fixed scratch size (a shared, growing buffer would be re-assigned)
			c.Do(subC12, &c12Case{Scenario: "dump2", A: "print \"" + strings.Repeat("s", 90) + "\"\nprint \"" + strings.Repeat("t", 300) + "\"\ndef b \"" + strings.Repeat("n", 5000) + "\" { x = 1 }", Bound: bound + 1})
			c.Do(subC12, &c12Case{Scenario: "bind2", A: "def c11target \"nm\" { x = 3 }\nbind c11target -> struct", Bound: bound})
			c.Do(subC12, &c12Case{Scenario: "defaults2", A: "def a { x = 1 }\nprint 1\nbind a -> struct", B: "var v = 2\nprint v\ndef b { y = v; print y }", Bound: bound + 1, Delay: true})
			c.Do(subC12, &c12Case{Scenario: "loadbufio2", A: "var a = 1\ndef b \"n\" { x = a }\nbind b -> struct", Bound: bound + 1})
			c.Bound("preemption_bound", bound)
		},
		Finish: func(m *fw.Merged) []string {
			var v []string
			for _, o := range []string{"race-free:pipeline", "race-free:parse2", "race-free:exec2"} {
				if m.Outcomes[o] == 0 && len(m.Violations) == 0 {
					v = append(v, "vacuous: scenario never completed: "+o)
				}
			}
			if m.Counters["race_events"] == 0 {
				v = append(v, "vacuous: no instrumented access was checked")
			}
			m.Extra["schedules"] = m.Counters["schedules"]
			m.Extra["race_events"] = m.Counters["race_events"]
			m.Extra["instrumentation"] = "general: package variables, fields of bcl struct types, captured locals"
			v = append(v, c12Supplementary(m)...)
			return v
		},
	})
}

// RacePass runs the C12 harness bodies free-running (used by cmd/racepass under -race),
// on larger variants of the inputs so that the goroutines really overlap.
func RacePass() int {
	n := 0
	var r [2]string
	big := strings.Repeat("print )\nprint 1\n\n", 400)
	var one []impl.Answer
	for i := 0; i < len(big); i += 7 {
		one = append(one, impl.Answer{N: 7})
	}
	cases := []*c12Case{
		{Scenario: "pipeline", A: big, Script: one},
		{Scenario: "pipeline", A: strings.Repeat("var a = 1\nprint a\n", 300), Script: one[:len(one)/2]},
		{Scenario: "parse2", A: big, B: strings.Repeat("def b { x = 1 }\n", 200)},
		{Scenario: "opts2", A: big, B: strings.Repeat("def b { x = 1 }\n", 200)},
		{Scenario: "parsefile2", A: big, B: big, Script: one},
		{Scenario: "interpret2", A: strings.Repeat("print 1+2\n", 300), B: strings.Repeat("def b { x = 1 }\n", 200)},
		{Scenario: "introspect2", A: strings.Repeat("print 1+2\n", 300), B: strings.Repeat("def b { x = 1 }\n", 200)},
		{Scenario: "defaults2", A: strings.Repeat("def a { x = 1 }\n", 100) + "print 1", B: strings.Repeat("def b { y = 2 }\n", 100) + "print 2"},
		{Scenario: "loadbufio2", A: strings.Repeat("print 1\n", 100) + "def b \"n\" { x = 1 }\nbind b -> struct"},
		{Scenario: "exec2", A: strings.Repeat("print 1\n", 200) + "def b \"n\" { x = 1 }\nbind b -> struct"},
		{Scenario: "execdump", A: strings.Repeat("print 1\n", 200) + "def b \"n\" { x = 1 }\nbind b -> struct"},
		{Scenario: "exec2opts", A: strings.Repeat("print 1\n", 200) + "def b \"n\" { x = 1 }\nbind b -> struct\nbind b -> struct"},
		{Scenario: "bind2", A: "def c11target \"nm\" { x = 3 }\nbind c11target -> struct"},
		{Scenario: "dump2", A: strings.Repeat("print \""+strings.Repeat("s", 300)+"\"\n", 50) + "def b \"n\" { x = 1 }"},
		{Scenario: "load2", A: strings.Repeat("print 1\n", 200) + "def b \"n\" { x = 1 }\nbind b -> struct"},
		{Scenario: "unmarshal2", A: "def c11target \"nm\" { x = 3 }\nbind c11target -> struct", B: strings.Repeat("print 2\n", 100) + "def c11target { x = 4 }\nbind c11target -> struct"},
	}
	for rep := 0; rep < 5; rep++ {
		for _, c := range cases {
			c12Body(c, &r)()
			n++
		}
	}
	return n
}
