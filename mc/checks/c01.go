package checks

import (
	"fmt"
	"math"
	"strconv"
	"strings"

	"verif/mc/fw"
	"verif/mc/gen"
)

// progCase: one source program judged by the reference-model oracle.
type progCase struct {
	Src   string `json:"src"`
	Shard string `json:"shard,omitempty"`
}

func (c *progCase) Key() string { return c.Src }
func (c *progCase) ShardKey() string {
	if c.Shard != "" {
		return c.Shard
	}
	return c.Src
}

func refExec(cs fw.Case) *fw.Fail {
	c := cs.(*progCase)
	var info cmpInfo
	f := fw.Guard(func() *fw.Fail {
		ff, i := compareRun(c.Src)
		info = i
		return ff
	})
	if f == nil {
		fw.TallyOutcome(info.Class)
		if !strings.HasPrefix(info.Class, "unspecified") && !strings.HasPrefix(info.Class, "excluded") {
			fw.TallyNontrivial()
		}
	}
	return f
}

func newRefSub(name string) *fw.Sub {
	return &fw.Sub{Name: name, New: func() fw.Case { return &progCase{} }, Exec: refExec}
}

var subC01 = newRefSub("c01.expr")

// contexts in which the value of an expression is observed
func c01Contexts(e string) []string {
	return []string{
		"var x = 1; print " + e + "; print x",
		"var x = 1; var v = " + e + "; print v; print x; def b { f = v }",
		"var x = 1; def b { fi = 3; f = " + e + "; print f; print x }",
		"var x = 1; def b \"nm\" { f = 0; eval f = " + e + " print f }",
	}
}

func init() {
	fw.Register(&fw.Check{
		ID:    "C01",
		Level: "model_checking",
		Rule: "bounded-exhaustive enumeration of expressions, each executed by the real Interpret and by the reference evaluator (mc/ref) on the rendered text: " +
			"(a) the full operator x operand x operand cell table over 20 literal spellings + variables/fields of every dynamic type, in 4 observation contexts (print, variable, field, eval-in-block); " +
			"(b) all expression trees of depth <=2 over A atoms (quick 7, thorough 10), 12 binary and 3 prefix operators and assignment atoms; " +
			"(c) all unparenthesised chains of 4 operands (thorough 5) with every operator triple and every prefix pattern; (d) redundant parentheses (1 and 2 pairs) at every depth<=1 sub-expression; " +
			"(e) left/right nested chains and parenthesis towers of length 8..64; (f) every prefix operator over and/or over every comparison with 4 atoms per operand (depth 3). A state = one program; non-trivial = outcome specified by the documentation (not NaN ordering etc.).",
		Subs:           []*fw.Sub{subC01},
		BudgetQuick:    100,
		BudgetThorough: 1500,
		Assumptions: []string{"reference evaluator mc/ref encodes README/NOTE + property statement; NaN ordering, reading a child block as a field, repetition beyond 2^20 bytes are excluded",
			"operand values are limited to the alphabet (20 spellings); ints are 64-bit"},
		Run: func(c *fw.Ctx) {
			// short-circuit operators whose skipped / evaluated right operand compiles to 254 ... 65537 bytes
			for _, s := range gen.ScaledFamilies(c.Thorough()) {
				if strings.HasPrefix(s.Name, "jump-") || strings.HasPrefix(s.Name, "opbyte-") {
					c.Do(subC01, &progCase{Src: s.Src})
				}
			}
			// literal spellings: float literals of 1..21 significant digits in plain, fraction and exponent form (the value is the
			// correctly rounded double whatever the number of digits), int literals of every length in decimal / hex / octal
			for _, group := range c01Literals() {
				c.Do(subC01, &progCase{Src: group})
			}
			enumC01(c, func(src, shard string) bool {
				c.Do(subC01, &progCase{Src: src, Shard: shard})
				return !c.Expired()
			})
		},
		Finish: c01Finish,
	})
}

func c01Finish(m *fw.Merged) []string {
	var v []string
	for _, o := range []string{"accepted-ok", "accepted-rterr:types", "accepted-rterr:divzero", "accepted-rterr:neg"} {
		if m.Outcomes[o] == 0 {
			v = append(v, "vacuous: outcome class never observed: "+o)
		}
	}
	if n := m.Outcomes["rejected:syntax"] + m.Outcomes["rejected:lexical"]; n > 0 {
		v = append(v, fmt.Sprintf("generator bug: %d generated expressions are not well-formed", n))
	}
	return v
}

// enumC01 enumerates the expression programs of C01 (also used by C10, C14, C19).
func enumC01(c *fw.Ctx, do func(src, shard string) bool) {
	{
		{
			// (a) cell table in contexts, with variables and fields of every dynamic type
			pre := `var vi = 7; var vf = 2.5; var vs = "a"; var vb = true; var vn; `
			// computed NaN and infinities (no literal spells them) are operands too
			operands := append(append([]string{}, gen.AtomsT...), "vi", "vf", "vs", "vb", "vn", "(0.0/0.0)", "(1e308*10)", "(0-1e308*10)", "(0.0*(0-1))",
				// the ends of the int range (differences and sums that do not fit)
				"(0-9223372036854775807)", "(0-9223372036854775807-1)")
			for _, a := range operands {
				for _, ctx := range c01Contexts(a) {
					do(pre+ctx, "")
				}
				for _, p := range gen.PreOps {
					for _, ctx := range c01Contexts(p + " " + a) {
						do(pre+ctx, "")
					}
				}
				for _, b := range operands {
					for _, op := range gen.BinOps {
						for _, ctx := range c01Contexts(a + " " + op + " " + b) {
							do(pre+ctx, "")
						}
					}
				}
			}
			// fields as operands
			for _, a := range []string{"fi", "ff", "fs", "fb", "fn", "TYPE", "NAME", "2", `"a"`} {
				for _, b := range []string{"fi", "ff", "fs", "fb", "fn", "TYPE", "NAME", "2", `"a"`} {
					for _, op := range gen.BinOps {
						do(`def blk "nm" { fi = 7; ff = 2.5; fs = "a"; fb = false; fn = nil; r = `+a+" "+op+" "+b+`; print r }`, "")
						// the same operands read from a nested block (fields of the enclosing block, one of them nil, one shadowed)
						do(`def blk "nm" { fi = 7; ff = 2.5; fs = "a"; fb = false; fn = nil; def mid { fs = nil; def kid "k" { r = `+a+" "+op+" "+b+`; print r } } }`, "")
						// the same operands after a child block (and an earlier block's child) that used the same field names has ended
						do(`def old { def kid { fi = "x"; ff = 1; fs = 3; fb = true; fn = 9; fz = 5 } }; def blk "nm" { fi = 7; ff = 2.5; fs = "a"; fb = false; fn = nil; def kid "k" { fi = 2.5; ff = "y"; fs = nil; fb = 1; fn = "n" }; r = `+a+" "+op+" "+b+`; print r }`, "")
					}
				}
			}
			c.Bound("cell_table_operands", len(operands))
			// (b) trees of depth <= 2
			atoms := []string{"0", "2", "2.5", `"a"`, "nil", "x", "(x = x + 1)"}
			if c.Thorough() {
				atoms = []string{"0", "2", "2.5", `""`, `"a"`, "true", "false", "nil", "x", "(x = x + 1)"}
			}
			d1 := gen.Depth1(atoms)
			for _, e := range d1 {
				do("var x = 1; print "+e.Text+"; print x", "")
				// (d) redundant parentheses
				for n := 1; n <= 2; n++ {
					do("var x = 1; print "+gen.Paren(e, n).Text+"; print x", "")
				}
			}
			c.Bound("tree_atoms", len(atoms))
			ok := gen.Depth2(d1, c.Mine, func(e gen.Expr, left string) bool {
				return do("var x = 1; print "+e.Text+"; print x", left)
			})
			if !ok {
				c.Cap("deadline during depth-2 trees")
				return
			}
			c.Bound("tree_depth_completed", 2)
			// (d) parentheses around the operands of depth-2 trees: every depth-1 child wrapped
			for _, l := range d1 {
				if l.Depth != 1 || !c.Mine(l.Text) {
					continue
				}
				for _, r := range d1[:len(atoms)] {
					for _, op := range gen.BinOps {
						do("var x = 1; print "+gen.Bin(op, gen.Paren(l, 1), r).Text+"; print x", l.Text)
						do("var x = 1; print "+gen.Bin(op, r, gen.Paren(l, 2)).Text+"; print x", l.Text)
					}
				}
			}
			// (c) unparenthesised chains: precedence and associativity
			chainAtoms := [][]string{{"2", "3", "5", "7", "11"}, {"0", `"a"`, "2.5", "nil", "1"}}
			nops := 3
			if c.Thorough() {
				nops = 4
			}
			prefixes := []string{"", "-", "not "}
			for _, at := range chainAtoms {
				opIdx := make([]int, nops)
				for {
					preIdx := make([]int, nops+1)
					for {
						var sb strings.Builder
						for k := 0; k <= nops; k++ {
							if k > 0 {
								sb.WriteString(" " + gen.BinOps[opIdx[k-1]] + " ")
							}
							sb.WriteString(prefixes[preIdx[k]] + at[k])
						}
						if !do("print "+sb.String(), "") {
							c.Cap("deadline during chains")
							return
						}
						k := nops
						for k >= 0 {
							preIdx[k]++
							if preIdx[k] < len(prefixes) {
								break
							}
							preIdx[k] = 0
							k--
						}
						if k < 0 {
							break
						}
					}
					k := nops - 1
					for k >= 0 {
						opIdx[k]++
						if opIdx[k] < len(gen.BinOps) {
							break
						}
						opIdx[k] = 0
						k--
					}
					if k < 0 {
						break
					}
				}
			}
			c.Bound("chain_operators_completed", nops)
			// (f) prefix operators over short-circuit operators over comparisons (depth 3): the shapes in
			// which a peephole or a jump patch could interact (`not (c and a != b)`)
			fAtoms := []string{"0", "2", `"a"`, "nil"}
			for _, pre := range []string{"not ", "- ", "not not "} {
				for _, bop := range []string{"and", "or"} {
					for _, cmp := range []string{"!=", "<=", ">=", "==", "<"} {
						for _, a := range fAtoms {
							for _, b := range fAtoms {
								for _, c3 := range fAtoms {
									for _, shape := range []string{"%s(%s %s %s %s %s)", "%s(%s %[5]s %[4]s %[3]s %[6]s)", "%s(%s %s (%s %s %s))"} {
										e := fmt.Sprintf(shape, pre, a, bop, b, cmp, c3)
										do("print "+e, "")
										do("def blk { f = "+e+"; g = 1 }", "")
									}
								}
							}
						}
					}
				}
			}
			c.Bound("prefix_over_shortcircuit_over_comparison", true)
			// (g) short-circuit shapes in a LATER statement: whatever the compiler keeps between statements
			// (pending-jump lists, scratch buffers) must not leak into the next expression
			scShapes := []string{"%s and %s", "%s or %s", "%s and %s and %s", "%s or %s or %s", "%s and (%s and %s)", "(%s and %s) and %s",
				"%s and not (%s and %s)", "%s and (%s or %s and %s)", "%s or (%s or %s)", "%s or (%s and %s)", "%s and (x = %s and %s)",
				"not (%s and %s) and %s", "%s and %s or %s and %s", "%s and (%s and (%s and %s))", "%s and %s and (%s and %s) and %s",
				"%s or %s and (%s or (%s and %s))", "%s and (%s == %s and %s)", "%s and - (%s and %s)"}
			var firsts, seconds []string
			for _, sh := range scShapes {
				n := strings.Count(sh, "%s")
				for mask := 0; mask < 1<<n; mask++ {
					args := make([]any, n)
					for i := range args {
						args[i] = []string{"false", "2"}[mask>>i&1]
					}
					e := fmt.Sprintf(sh, args...)
					seconds = append(seconds, e)
					if mask == 1<<n-1 || mask == 0 {
						firsts = append(firsts, e)
					}
				}
			}
			for _, e1 := range firsts {
				for _, e2 := range seconds {
					do("var x = 1; print "+e1+"; print "+e2+"; print x", "")
				}
			}
			for _, e2 := range seconds {
				do("var x = 1; def blk { f = 1 and 2 and 3; g = "+e2+"; h = x }", "")
				do("var x = 1; print 1 and 2; print 1 and 2 and 3 and 4; print "+e2, "")
			}
			c.Bound("shortcircuit_in_later_statement", len(firsts)*len(seconds))
			// (e) deep nesting
			for _, n := range []int{8, 16, 32, 64} {
				for _, op := range gen.BinOps {
					// left nested: ((a op b) op c)...; right nested with parentheses
					l := "2"
					r := "2"
					flat := "2"
					for i := 0; i < n; i++ {
						l = "(" + l + " " + op + " 3)"
						r = "(3 " + op + " " + r + ")"
						flat += " " + op + " 3"
					}
					do("print "+l, "")
					do("print "+r, "")
					do("print "+flat, "")
				}
				do("print "+strings.Repeat("(", n)+"1 + 2"+strings.Repeat(")", n), "")
				do("print "+strings.Repeat("- ", n)+"2", "")
				do("print "+strings.Repeat("not ", n)+"2", "")
				do("var x = 0; print "+strings.Repeat("(x = ", n)+"x + 1"+strings.Repeat(")", n)+"; print x", "")
			}
			c.Bound("nesting_completed", 64)
		}
	}
}

// c01Literals: programs of 20 statements each, every statement prints one literal, stores it in a field and compares it
// with itself spelled otherwise.
func c01Literals() []string {
	var lits []string
	add := func(l string) {
		if !strings.ContainsAny(l, ".eE") {
			l += ".0"
		}
		lits = append(lits, l)
	}
	for i := 1; i <= 700; i++ {
		f := float64(i) / 997 * math.Pow(10, float64(i%9-4))
		if i%3 == 0 {
			f = math.Nextafter(f, 0)
		}
		add(strconv.FormatFloat(f, 'f', -1, 64)) // shortest spelling that round-trips (15..17 digits)
		add(strconv.FormatFloat(f, 'e', -1, 64))
		for _, prec := range []int{14, 15, 16, 17, 18, 19, 20} {
			add(strconv.FormatFloat(f, 'e', prec, 64))
			if i%7 == 0 {
				add(strconv.FormatFloat(f, 'f', prec, 64))
			}
		}
	}
	// halfway cases and the ends of the range
	for _, l := range []string{"0.9999999999999999", "0.99999999999999999", "0.999999999999999944488848768742172978818416595458984375", "96485.33212331001", "9007199254740993.0", "9007199254740992.5",
		"123456789012345678.0", "1234567890123456789.0", "12345678901234567890.0", "1.7976931348623157e308", "1.7976931348623158e308", "4.9406564584124654e-324", "2.4703282292062328e-324", "2.2250738585072011e-308", "2.2250738585072014e-308",
		"1e23", "8.41e21", "9.5e-5", "5e-324", "0.1", "0.30000000000000004", "1e22", "1e-22", "100000000000000016.0", "0.000001", "1e15", "1e16", "1e17", "179769313486231570000000000000000000000.0"} {
		add(l)
	}
	var progs []string
	for i := 0; i < len(lits); i += 20 {
		var b strings.Builder
		b.WriteString("def b {\n")
		for j := i; j < i+20 && j < len(lits); j++ {
			fmt.Fprintf(&b, " print %s\n f%d = %s\n print \"\" + %s\n", lits[j], j-i, lits[j], lits[j])
		}
		b.WriteString("}\n")
		progs = append(progs, b.String())
	}
	// strings that look like templates of other languages are plain text
	progs = append(progs, "var x = 5\nvar name = \"n\"\ndef b {\n y = 1\n f = \"${x}\"\n g = \"a${name}b$x\"\n h = \"#{x} {{x}} $(x) %{x} {x} \\\\(x) ${} ${y} ${zz}\"\n print f + g + h\n print \"${x}\" == \"$\" + \"{x}\"\n}\n")
	// ints: every length 1..19 in decimal, 1..16 in hex, 1..21 in octal, around the powers of two and ten
	var ints []string
	for n := 1; n <= 19; n++ {
		ints = append(ints, strings.Repeat("9", n)[:n], "1"+strings.Repeat("0", n-1), "1"+strings.Repeat("0", n-1)+"1")
	}
	ints = ints[:len(ints)-3] // 19 nines etc. are out of range
	for n := 1; n <= 15; n++ {
		ints = append(ints, "0x"+strings.Repeat("f", n), "0X1"+strings.Repeat("0", n), "0x"+strings.Repeat("A", n))
	}
	for n := 1; n <= 20; n++ {
		ints = append(ints, "0"+strings.Repeat("7", n), "01"+strings.Repeat("0", n))
	}
	for k := 1; k < 63; k++ {
		v := int64(1) << uint(k)
		ints = append(ints, strconv.FormatInt(v-1, 10), strconv.FormatInt(v, 10), "0x"+strconv.FormatInt(v+1, 16), "0"+strconv.FormatInt(v-1, 8))
	}
	for i := 0; i < len(ints); i += 20 {
		var b strings.Builder
		b.WriteString("def b {\n")
		for j := i; j < i+20 && j < len(ints); j++ {
			fmt.Fprintf(&b, " print %s\n f%d = %s + 0\n print \"\" + %s\n", ints[j], j-i, ints[j], ints[j])
		}
		b.WriteString("}\n")
		progs = append(progs, b.String())
	}
	return progs
}
