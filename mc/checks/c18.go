package checks

import (
	"bufio"
	"bytes"
	"encoding/json"
	"fmt"
	"io"
	"os"
	"os/exec"
	"path/filepath"
	"regexp"
	"sort"
	"strings"
	"syscall"

	"github.com/wkhere/bcl"

	"verif/mc/fw"
)

// C18 — the command-line tool mirrors the library.

// ---------------------------------------------------------------- reference argument parser (from the usage text)

type refArgs struct {
	File      string `json:"file"`
	D         bool   `json:"d"`
	T         bool   `json:"t"`
	R         bool   `json:"r"`
	S         bool   `json:"s"`
	Bdump     bool   `json:"bdump"`
	Bload     bool   `json:"bload"`
	BdumpFile string `json:"bdumpFile"`
	BloadFile string `json:"bloadFile"`
	Help      bool   `json:"help"`
	Err       bool   `json:"err"`
}

// refParseArgs: usage: bcl [-d|--disasm] [-t|--trace] [-r|--result] [-s|--stats]
// [--bdump|--bdump=BFILE] [--bload|--bload=BFILE] [FILE|-]; flags in any order, before or after
// FILE, single letters may be clustered, `--` ends the flags, -h prints the usage.
func refParseArgs(argv []string) refArgs {
	var a refArgs
	var files []string
	queue := append([]string{}, argv...)
	for len(queue) > 0 {
		arg := queue[0]
		queue = queue[1:]
		switch {
		case arg == "--":
			files = append(files, queue...)
			queue = nil
		case arg == "-h":
			return refArgs{Help: true}
		case arg == "-d" || arg == "--disasm":
			a.D = true
		case arg == "-t" || arg == "--trace":
			a.T = true
		case arg == "-r" || arg == "--result":
			a.R = true
		case arg == "-s" || arg == "--stats":
			a.S = true
		case arg == "--bdump":
			a.Bdump = true
		case strings.HasPrefix(arg, "--bdump="):
			a.Bdump = true
			a.BdumpFile = arg[len("--bdump="):]
		case arg == "--bload":
			a.Bload = true
		case strings.HasPrefix(arg, "--bload="):
			a.Bload = true
			a.BloadFile = arg[len("--bload="):]
		case arg == "-" || !strings.HasPrefix(arg, "-"):
			files = append(files, arg)
		case len(arg) > 2 && !strings.HasPrefix(arg, "--"):
			// cluster of single letters
			var exp []string
			for _, r := range arg[1:] {
				if r < 'a' || r > 'z' {
					return refArgs{Err: true}
				}
				exp = append(exp, "-"+string(r))
			}
			queue = append(exp, queue...)
		default:
			return refArgs{Err: true}
		}
	}
	if len(files) > 1 {
		return refArgs{Err: true}
	}
	if len(files) == 1 {
		a.File = files[0]
	}
	if a.Bdump && a.BdumpFile == "" {
		if !strings.HasSuffix(a.File, ".bcl") {
			return refArgs{Err: true}
		}
		a.BdumpFile = strings.TrimSuffix(a.File, ".bcl") + ".bcb"
	}
	if a.Bload {
		if a.File != "" && a.BloadFile != "" {
			return refArgs{Err: true}
		}
		if a.File == "" && a.BloadFile != "" {
			a.File = a.BloadFile
		}
	}
	if a.File == "" {
		a.File = "-"
	}
	return a
}

// ---------------------------------------------------------------- level 1: exhaustive argv through the real parseArgs (server mode)

type c18Argv struct {
	Prefix []string `json:"prefix"` // all argv = Prefix + every last symbol
}

func (c *c18Argv) Key() string { return fmt.Sprintf("%q", c.Prefix) }

var c18Alphabet = []string{"-d", "-t", "-r", "-s", "--disasm", "--trace", "--result", "--stats", "-dt", "-ts", "-dts", "-rs",
	"--bdump", "--bdump=o.bcb", "--bload", "--bload=o.bcb", "--", "-", "f.bcl", "g.txt", "-x", "--foo", "-h", "-d1", "--bdumpx", "calc.bcl",
	"--bdump=env=prod.bcb", "--bload=a=b"}

var argvServer struct {
	cmd *exec.Cmd
	in  io.WriteCloser
	out *bufio.Scanner
}

func argvServerBin() string { return filepath.Join(fw.WorkDir(), "bcl-argv") }
func cliBin() string        { return filepath.Join(fw.WorkDir(), "bcl-cli") }

func askServer(argv []string) (refArgs, error) {
	if argvServer.cmd == nil {
		cmd := exec.Command(argvServerBin())
		cmd.Env = append(os.Environ(), "BCLMC_ARGV_SERVER=1")
		in, _ := cmd.StdinPipe()
		out, _ := cmd.StdoutPipe()
		if err := cmd.Start(); err != nil {
			return refArgs{}, err
		}
		argvServer.cmd, argvServer.in = cmd, in
		argvServer.out = bufio.NewScanner(out)
		argvServer.out.Buffer(make([]byte, 1<<16), 1<<20)
	}
	b, _ := json.Marshal(argv)
	if _, err := argvServer.in.Write(append(b, '\n')); err != nil {
		return refArgs{}, err
	}
	if !argvServer.out.Scan() {
		return refArgs{}, fmt.Errorf("argv server died")
	}
	var r refArgs
	err := json.Unmarshal(argvServer.out.Bytes(), &r)
	return r, err
}

var subC18Argv = &fw.Sub{Name: "c18.argv", New: func() fw.Case { return &c18Argv{} }, Exec: func(cs fw.Case) *fw.Fail {
	c := cs.(*c18Argv)
	for _, last := range append([]string{""}, c18Alphabet...) {
		argv := append([]string{}, c.Prefix...)
		if last != "" {
			argv = append(argv, last)
		} else if len(c.Prefix) > 0 {
			continue
		}
		got, err := askServer(argv)
		if err != nil {
			return fw.Failf("argument server answers", "%v", err)
		}
		want := refParseArgs(argv)
		if got.Err || got.Help {
			got = refArgs{Err: got.Err, Help: got.Help && !got.Err}
		}
		if got != want {
			return fw.Failf(fmt.Sprintf("argv %q parsed as %+v (usage text)", argv, want), "%+v", got)
		}
		fw.Tally("argv", 1)
		switch {
		case want.Err:
			fw.TallyOutcome("argv-usage-error")
		case want.Help:
			fw.TallyOutcome("argv-help")
		default:
			fw.TallyOutcome("argv-ok")
		}
	}
	fw.TallyNontrivial()
	return nil
}}

// ---------------------------------------------------------------- level 2: the real binary

type c18Run struct {
	Flags   []string `json:"flags"`   // flag set (canonical order)
	Prog    string   `json:"prog"`    // program class
	Mode    string   `json:"mode"`    // name | dash | omitted
	Variant int      `json:"variant"` // which permutation/clustering
}

func (c *c18Run) Key() string { return fmt.Sprintf("%v|%s|%s|%d", c.Flags, c.Prog, c.Mode, c.Variant) }

var c18Progs = map[string]string{
	"ok":      "var x=1; def block \"n\" {eval x=x+2; field=x}\nprint x\nbind block -> struct\n",
	"parse":   "print 1\nprint )\nvar\n",
	"runtime": "print 1\ndef a { x = 1/0 }\nprint 2\n",
	"empty":   "",
}

type procResult struct {
	stdout, stderr string
	code           int
}

func runCLI(dir string, stdin string, argv ...string) procResult {
	cmd := exec.Command(cliBin(), argv...)
	cmd.Dir = dir
	cmd.Stdin = strings.NewReader(stdin)
	var o, e bytes.Buffer
	cmd.Stdout, cmd.Stderr = &o, &e
	err := cmd.Run()
	code := 0
	if ee, ok := err.(*exec.ExitError); ok {
		code = ee.ExitCode()
	} else if err != nil {
		code = -1
	}
	return procResult{o.String(), e.String(), code}
}

// expectedFromLibrary computes stdout / status from the library with the same options.
func expectedFromLibrary(path, name string, a refArgs) (stdout string, code int, stderrHas string) {
	var out, log bytes.Buffer
	f, err := os.Open(path)
	if err != nil {
		return "", 1, ""
	}
	prog, err := bcl.ParseFile(namedFile{f, name}, bcl.OptDisasm(a.D), bcl.OptStats(a.S), bcl.OptOutput(&out), bcl.OptLogger(&log))
	if err != nil {
		return out.String(), 1, strings.TrimSpace(log.String())
	}
	res, binding, err := bcl.Execute(prog, bcl.OptTrace(a.T), bcl.OptStats(a.S), bcl.OptOutput(&out))
	if err != nil {
		return out.String(), 1, err.Error()
	}
	if a.R {
		fmt.Fprintf(&out, "result:  %+v\n", res)
		fmt.Fprintf(&out, "binding: %+v\n", binding)
	}
	return out.String(), 0, strings.TrimSpace(log.String())
}

type namedFile struct {
	*os.File
	name string
}

func (n namedFile) Name() string { return n.name }

// variants of writing a flag set: permutations around the file argument and clusterings
func c18Variants(flags []string, file string) [][]string {
	var out [][]string
	perm := func(fs []string) [][]string {
		var res [][]string
		var rec func(cur, rest []string)
		rec = func(cur, rest []string) {
			if len(rest) == 0 {
				res = append(res, append([]string{}, cur...))
				return
			}
			for i := range rest {
				nr := append(append([]string{}, rest[:i]...), rest[i+1:]...)
				rec(append(cur, rest[i]), nr)
			}
		}
		rec(nil, fs)
		return res
	}
	long := map[string]string{"-d": "--disasm", "-t": "--trace", "-r": "--result", "-s": "--stats"}
	for _, p := range perm(flags) {
		// file at every position
		for pos := 0; pos <= len(p); pos++ {
			v := append(append(append([]string{}, p[:pos]...), fileArg(file)...), p[pos:]...)
			out = append(out, v)
		}
		// clustered: all letters in one argument
		if len(p) > 1 {
			cl := "-"
			for _, f := range p {
				cl += f[1:]
			}
			out = append(out, append([]string{cl}, fileArg(file)...), append(fileArg(file), cl))
			// first two clustered, rest separate
			out = append(out, append(append([]string{"-" + p[0][1:] + p[1][1:]}, p[2:]...), fileArg(file)...))
		}
		// long spellings
		var lv []string
		for _, f := range p {
			lv = append(lv, long[f])
		}
		out = append(out, append(lv, fileArg(file)...), append(fileArg(file), lv...))
		if file != "" && file != "-" {
			out = append(out, append(append([]string{}, p...), "--", file))
		}
	}
	return out
}

func fileArg(f string) []string {
	if f == "" {
		return nil
	}
	return []string{f}
}

var subC18Run = &fw.Sub{Name: "c18.run", New: func() fw.Case { return &c18Run{} }, Exec: func(cs fw.Case) *fw.Fail {
	c := cs.(*c18Run)
	dir, err := os.MkdirTemp(fw.WorkDir(), "cli")
	if err != nil {
		return fw.Failf("scratch dir", "%v", err)
	}
	defer os.RemoveAll(dir)
	src := c18Progs[c.Prog]
	os.WriteFile(filepath.Join(dir, "f.bcl"), []byte(src), 0o644)
	file, stdin, libName := "f.bcl", "", "f.bcl"
	switch c.Mode {
	case "dash":
		file, stdin, libName = "-", src, "/dev/stdin"
	case "omitted":
		file, stdin, libName = "", src, "/dev/stdin"
	}
	variants := c18Variants(c.Flags, file)
	if c.Variant >= len(variants) {
		return nil
	}
	argv := variants[c.Variant]
	var a refArgs
	for _, f := range c.Flags {
		switch f {
		case "-d":
			a.D = true
		case "-t":
			a.T = true
		case "-r":
			a.R = true
		case "-s":
			a.S = true
		}
	}
	wantOut, wantCode, wantErr := expectedFromLibrary(filepath.Join(dir, "f.bcl"), libName, a)
	got := runCLI(dir, stdin, argv...)
	if got.code != wantCode {
		return fw.Failf(fmt.Sprintf("bcl %q exits with status %d", argv, wantCode), "status %d, stderr %q", got.code, fw.Trunc(stableText(got.stderr), 300))
	}
	if got.stdout != wantOut {
		return fw.Failf(fmt.Sprintf("bcl %q prints what the library prints: %q", argv, fw.Trunc(wantOut, 400)), "%q", fw.Trunc(got.stdout, 400))
	}
	if wantCode == 1 && (strings.TrimSpace(got.stderr) == "" || !strings.Contains(got.stderr, firstLine(wantErr))) {
		return fw.Failf(fmt.Sprintf("diagnostics on standard error (%q)", firstLine(wantErr)), "stderr %q", got.stderr)
	}
	if wantCode == 0 && strings.TrimSpace(got.stderr) != strings.TrimSpace(wantErr) {
		return fw.Failf(fmt.Sprintf("stderr holds only the library's warnings %q", wantErr), "stderr %q", got.stderr)
	}
	fw.Tally("process_runs", 1)
	fw.TallyOutcome(fmt.Sprintf("exit-%d", wantCode))
	fw.TallyNontrivial()
	return nil
}}

func firstLine(s string) string {
	if i := strings.IndexByte(s, '\n'); i >= 0 {
		return s[:i]
	}
	return s
}

// other behaviours: usage errors, missing files, directories, bdump/bload round trip
type c18Misc struct {
	Name string `json:"name"`
}

func (c *c18Misc) Key() string { return c.Name }

var subC18Misc = &fw.Sub{Name: "c18.misc", New: func() fw.Case { return &c18Misc{} }, Exec: func(cs fw.Case) *fw.Fail {
	c := cs.(*c18Misc)
	dir, err := os.MkdirTemp(fw.WorkDir(), "cli")
	if err != nil {
		return fw.Failf("scratch dir", "%v", err)
	}
	defer os.RemoveAll(dir)
	for k, src := range c18Progs {
		os.WriteFile(filepath.Join(dir, k+".bcl"), []byte(src), 0o644)
	}
	os.Mkdir(filepath.Join(dir, "adir"), 0o755)
	expect := func(what string, r procResult, code int) *fw.Fail {
		if r.code != code {
			return fw.Failf(fmt.Sprintf("%s: exit status %d", what, code), "status %d stdout %q stderr %q", r.code, fw.Trunc(r.stdout, 200), fw.Trunc(stableText(r.stderr), 200))
		}
		if code != 0 && strings.TrimSpace(r.stderr) == "" {
			return fw.Failf(what+": message on standard error", "empty stderr")
		}
		return nil
	}
	parts := strings.SplitN(c.Name, ":", 2)
	switch parts[0] {
	case "usage":
		argv := strings.Fields(parts[1])
		r := runCLI(dir, "", argv...)
		if f := expect("usage error "+parts[1], r, 2); f != nil {
			return f
		}
		if r.stdout != "" {
			return fw.Failf("nothing on stdout after a usage error", "%q", r.stdout)
		}
		fw.TallyOutcome("exit-2")
	case "help":
		r := runCLI(dir, "", strings.Fields(parts[1])...)
		if r.code != 0 || !strings.Contains(r.stdout, "usage: bcl") {
			return fw.Failf("-h prints the usage and exits 0", "status %d stdout %q", r.code, r.stdout)
		}
		fw.TallyOutcome("help")
	case "special-files":
		// FILE need not be a regular file: /dev/stdin, /dev/null, a FIFO; a FILE whose path is longer than 255 bytes;
		// BFILE of --bload and --bdump being the same file
		want := runCLI(dir, "", "ok.bcl")
		if want.code != 0 {
			return fw.Failf("bcl ok.bcl succeeds", "status %d %q", want.code, want.stderr)
		}
		if r := runCLI(dir, c18Progs["ok"], "/dev/stdin"); r.stdout != want.stdout || r.code != 0 {
			return fw.Failf("bcl /dev/stdin reads the piped program: "+fw.Trunc(want.stdout, 200), "status %d %q %q", r.code, fw.Trunc(r.stdout, 200), fw.Trunc(stableText(r.stderr), 200))
		}
		empty := runCLI(dir, "", "empty.bcl")
		if r := runCLI(dir, "", "/dev/null"); r.stdout != empty.stdout || r.code != empty.code {
			return fw.Failf(fmt.Sprintf("bcl /dev/null behaves like an empty file: status %d %q", empty.code, empty.stdout), "status %d %q %q", r.code, r.stdout, fw.Trunc(stableText(r.stderr), 200))
		}
		fifo := filepath.Join(dir, "conf.fifo")
		if err := syscall.Mkfifo(fifo, 0o600); err == nil {
			go func() {
				if w, err := os.OpenFile(fifo, os.O_WRONLY, 0); err == nil {
					w.WriteString(c18Progs["ok"])
					w.Close()
				}
			}()
			if r := runCLI(dir, "", "conf.fifo"); r.stdout != want.stdout || r.code != 0 {
				// make sure the writer goroutine is not left blocked
				if rf, err := os.OpenFile(fifo, os.O_RDONLY|syscall.O_NONBLOCK, 0); err == nil {
					rf.Close()
				}
				return fw.Failf("bcl conf.fifo (a named pipe) reads the program: "+fw.Trunc(want.stdout, 200), "status %d %q %q", r.code, fw.Trunc(r.stdout, 200), fw.Trunc(stableText(r.stderr), 200))
			}
		}
		// a FILE path longer than 255 bytes, dumped and loaded again
		deep := dir
		rel := ""
		for i := 0; i < 5; i++ {
			seg := strings.Repeat(string(rune('a'+i)), 60)
			deep = filepath.Join(deep, seg)
			rel = filepath.Join(rel, seg)
		}
		if err := os.MkdirAll(deep, 0o755); err == nil {
			os.WriteFile(filepath.Join(deep, "conf.bcl"), []byte(c18Progs["ok"]), 0o644)
			long := filepath.Join(rel, "conf.bcl")
			d := runCLI(dir, "", "--bdump=long.bcb", long)
			l := runCLI(dir, "", "--bload", "long.bcb")
			if d.code != 0 || d.stdout != want.stdout || l.stdout != d.stdout || l.code != d.code {
				return fw.Failf(fmt.Sprintf("a FILE path of %d bytes: --bdump then --bload reproduce %q", len(long), fw.Trunc(want.stdout, 200)),
					"dump: status %d %q %q; load: status %d %q %q", d.code, fw.Trunc(d.stdout, 100), fw.Trunc(stableText(d.stderr), 200), l.code, fw.Trunc(l.stdout, 100), fw.Trunc(stableText(l.stderr), 200))
			}
		}
		// a dump of more than 4 KiB whose string constants straddle the loader's buffer boundaries
		{
			var sb strings.Builder
			for i := 0; i < 260; i++ {
				fmt.Fprintf(&sb, "print \"%s-%d\"\n", strings.Repeat("s", 17+i%23), i)
			}
			os.WriteFile(filepath.Join(dir, "big.bcl"), []byte(sb.String()), 0o644)
			d := runCLI(dir, "", "--bdump=big.bcb", "big.bcl")
			l := runCLI(dir, "", "--bload", "big.bcb")
			if d.code != 0 || l.code != 0 || l.stdout != d.stdout {
				return fw.Failf("--bload reproduces the output of a program whose dump exceeds 4 KiB", "dump status %d, load status %d %q (stdout %d vs %d bytes)", d.code, l.code, fw.Trunc(stableText(l.stderr), 200), len(l.stdout), len(d.stdout))
			}
		}
		// BFILE on another file system than the temporary directory, and an unusable TMPDIR
		if st, err := os.Stat("/dev/shm"); err == nil && st.IsDir() {
			shm := fmt.Sprintf("/dev/shm/c18-%d.bcb", os.Getpid())
			d := runCLI(dir, "", "--bdump="+shm, "ok.bcl")
			_, serr := os.Stat(shm)
			os.Remove(shm)
			if d.code != 0 || d.stdout != want.stdout || serr != nil {
				return fw.Failf("--bdump to a BFILE on another file system works", "status %d %q %q (BFILE written: %v)", d.code, fw.Trunc(d.stdout, 200), fw.Trunc(stableText(d.stderr), 200), serr == nil)
			}
		}
		{
			cmd := exec.Command(cliBin(), "--bdump=tmpdir.bcb", "ok.bcl")
			cmd.Dir = dir
			cmd.Env = append(os.Environ(), "TMPDIR=/nonexistent-c18")
			var o, e bytes.Buffer
			cmd.Stdout, cmd.Stderr = &o, &e
			rerr := cmd.Run()
			if rerr != nil || o.String() != want.stdout {
				return fw.Failf("--bdump does not depend on TMPDIR", "err=%v stdout %q stderr %q", rerr, fw.Trunc(o.String(), 200), fw.Trunc(stableText(e.String()), 200))
			}
		}
		// FILE is used as spelled: a file called "-" reached as ./-, and the name shown by -d / stored by --bdump
		{
			os.WriteFile(filepath.Join(dir, "-"), []byte("print \"the file named dash\"\n"), 0o644)
			if r := runCLI(dir, c18Progs["ok"], "./-"); r.code != 0 || r.stdout != "the file named dash\n" {
				return fw.Failf("bcl ./- runs the FILE named '-' (not standard input)", "status %d %q %q", r.code, fw.Trunc(r.stdout, 200), fw.Trunc(stableText(r.stderr), 200))
			}
			os.Mkdir(filepath.Join(dir, "sub"), 0o755)
			for _, spelled := range []string{"./ok.bcl", "sub/../ok.bcl", ".//ok.bcl"} {
				wantOut, wantCode, _ := expectedFromLibrary(filepath.Join(dir, "ok.bcl"), spelled, refArgs{D: true})
				if r := runCLI(dir, "", "-d", spelled); r.stdout != wantOut || r.code != wantCode {
					return fw.Failf("bcl -d "+spelled+" prints what the library prints for a file of that name: "+fw.Trunc(wantOut, 120), "status %d %q", r.code, fw.Trunc(r.stdout, 120))
				}
			}
		}
		// load from and dump to the same BFILE
		runCLI(dir, "", "--bdump=same.bcb", "ok.bcl")
		before, _ := os.ReadFile(filepath.Join(dir, "same.bcb"))
		for _, argv := range [][]string{{"--bload", "same.bcb", "--bdump=same.bcb"}, {"--bdump=same.bcb", "--bload", "same.bcb"}} {
			r := runCLI(dir, "", argv...)
			after, _ := os.ReadFile(filepath.Join(dir, "same.bcb"))
			if r.code != 0 || r.stdout != want.stdout || !bytes.Equal(before, after) {
				return fw.Failf(fmt.Sprintf("bcl %v loads the file, runs it and writes the same dump back", argv), "status %d %q %q; file %d -> %d bytes", r.code, fw.Trunc(r.stdout, 200), fw.Trunc(stableText(r.stderr), 200), len(before), len(after))
			}
		}
		fw.Tally("process_runs", 10)
		fw.TallyOutcome("exit-0")
	case "special-files-2":
		// standard input of every kind with FILE omitted and with '-': a pipe, an empty regular file, /dev/null (a character
		// device, like a terminal), a FIFO; BFILE: /dev/null, names that begin with '-'
		runWith := func(stdin *os.File, argv ...string) procResult {
			cmd := exec.Command(cliBin(), argv...)
			cmd.Dir = dir
			cmd.Stdin = stdin
			var o, e bytes.Buffer
			cmd.Stdout, cmd.Stderr = &o, &e
			err := cmd.Run()
			code := 0
			if ee, ok := err.(*exec.ExitError); ok {
				code = ee.ExitCode()
			} else if err != nil {
				code = -1
			}
			return procResult{o.String(), e.String(), code}
		}
		empty := runCLI(dir, "", "empty.bcl")
		for _, argv := range [][]string{{}, {"-"}, {"-r"}, {"-r", "-"}} {
			wantE := runCLI(dir, "", append(append([]string{}, argv...), "empty.bcl")...)
			if len(argv) > 0 && argv[len(argv)-1] == "-" {
				wantE = runCLI(dir, "", append(append([]string{}, argv[:len(argv)-1]...), "empty.bcl")...)
			}
			for _, in := range []string{"/dev/null", filepath.Join(dir, "empty.bcl")} {
				f, err := os.Open(in)
				if err != nil {
					continue
				}
				r := runWith(f, argv...)
				f.Close()
				if r.code != wantE.code || r.stdout != wantE.stdout {
					return fw.Failf(fmt.Sprintf("bcl %v with %s as standard input behaves like an empty FILE: status %d %q", argv, strings.TrimPrefix(in, dir+"/"), wantE.code, wantE.stdout),
						"status %d stdout %q stderr %q", r.code, fw.Trunc(r.stdout, 200), fw.Trunc(stableText(r.stderr), 200))
				}
				fw.Tally("process_runs", 1)
			}
		}
		_ = empty
		want := runCLI(dir, "", "ok.bcl")
		wantRT := runCLI(dir, "", "runtime.bcl")
		// BFILE = /dev/null: nothing to keep, the run is the same
		for _, prog := range []string{"ok", "runtime"} {
			w := want
			if prog == "runtime" {
				w = wantRT
			}
			for _, argv := range [][]string{{"--bdump=/dev/null", prog + ".bcl"}, {prog + ".bcl", "--bdump=/dev/null", "-r"}} {
				wr := w
				if len(argv) == 3 {
					wr = runCLI(dir, "", prog+".bcl", "-r")
				}
				if r := runCLI(dir, "", argv...); r.code != wr.code || r.stdout != wr.stdout {
					return fw.Failf(fmt.Sprintf("bcl %v (a BFILE that is a device) runs the program as without --bdump: status %d %q", argv, wr.code, fw.Trunc(wr.stdout, 200)),
						"status %d stdout %q stderr %q", r.code, fw.Trunc(r.stdout, 200), fw.Trunc(stableText(r.stderr), 200))
				}
				fw.Tally("process_runs", 1)
			}
		}
		// BFILE names that begin with '-' (given with '=', or derived from a FILE that begins with '-')
		os.WriteFile(filepath.Join(dir, "-neg.bcl"), []byte(c18Progs["ok"]), 0o644)
		os.WriteFile(filepath.Join(dir, "-rt.bcl"), []byte(c18Progs["runtime"]), 0o644)
		for _, tc := range []struct {
			argv  []string
			bfile string
			w     procResult
		}{
			{[]string{"--bdump=-out.bcb", "ok.bcl"}, "-out.bcb", want},
			{[]string{"--bdump=--out.bcb", "ok.bcl"}, "--out.bcb", want},
			{[]string{"--bdump", "--", "-neg.bcl"}, "-neg.bcb", want},
			{[]string{"--bdump", "--", "-rt.bcl"}, "-rt.bcb", wantRT},
			{[]string{"--bdump=-", "ok.bcl"}, "-", want},
		} {
			r := runCLI(dir, "", tc.argv...)
			_, serr := os.Stat(filepath.Join(dir, tc.bfile))
			if tc.bfile == "-" && r.code == 2 {
				continue // whether '-' may name a dump file is left open by the usage text; everything else is a plain file name
			}
			if r.code != tc.w.code || r.stdout != tc.w.stdout || serr != nil {
				return fw.Failf(fmt.Sprintf("bcl %v runs the program (status %d %q) and writes the BFILE %q", tc.argv, tc.w.code, fw.Trunc(tc.w.stdout, 120), tc.bfile),
					"status %d stdout %q stderr %q, BFILE written: %v", r.code, fw.Trunc(r.stdout, 120), fw.Trunc(stableText(r.stderr), 200), serr == nil)
			}
			l := runCLI(dir, "", "--bload="+tc.bfile)
			if tc.bfile == "-" {
				l = runCLI(dir, "", "--bload", "./-")
			}
			if l.code != tc.w.code || l.stdout != tc.w.stdout {
				return fw.Failf(fmt.Sprintf("--bload=%s reproduces the run (status %d %q)", tc.bfile, tc.w.code, fw.Trunc(tc.w.stdout, 120)), "status %d stdout %q stderr %q", l.code, fw.Trunc(l.stdout, 120), fw.Trunc(stableText(l.stderr), 200))
			}
			fw.Tally("process_runs", 2)
		}
		fw.TallyOutcome("exit-0")
	case "stdin-offset":
		// standard input is a file the caller has already read a part of: the tool processes what is left
		for _, argv := range [][]string{{}, {"-"}, {"-r", "-"}} {
			for _, skip := range []string{"", "print \"consumed by the caller\"\n", "this line is not bcl )\n"} {
				rest := c18Progs["ok"]
				path := filepath.Join(dir, "stdin.txt")
				os.WriteFile(path, []byte(skip+rest), 0o644)
				f, err := os.Open(path)
				if err != nil {
					return fw.Failf("open", "%v", err)
				}
				f.Seek(int64(len(skip)), io.SeekStart)
				cmd := exec.Command(cliBin(), argv...)
				cmd.Dir = dir
				cmd.Stdin = f
				var o, e bytes.Buffer
				cmd.Stdout, cmd.Stderr = &o, &e
				rerr := cmd.Run()
				f.Close()
				want := runCLI(dir, rest, argv...)
				if rerr != nil || o.String() != want.stdout || want.code != 0 {
					return fw.Failf(fmt.Sprintf("bcl %v with a file at offset %d as standard input behaves as with the remaining bytes piped in: %q", argv, len(skip), fw.Trunc(want.stdout, 200)),
						"err=%v stdout %q stderr %q", rerr, fw.Trunc(o.String(), 200), fw.Trunc(stableText(e.String()), 200))
				}
				fw.Tally("process_runs", 2)
			}
		}
		fw.TallyOutcome("exit-0")
	case "io":
		r := runCLI(dir, "", strings.Fields(parts[1])...)
		if f := expect("I/O error "+parts[1], r, 1); f != nil {
			return f
		}
		fw.TallyOutcome("exit-1-io")
	case "bdump":
		// --bdump writes a file from which --bload reproduces output and status
		prog := parts[1]
		for _, flags := range [][]string{{}, {"-r"}, {"-d"}, {"-t"}, {"-d", "-t", "-r"}} {
			for _, form := range []int{0, 1, 2} {
				os.Remove(filepath.Join(dir, prog+".bcb"))
				os.Remove(filepath.Join(dir, "o.bcb"))
				var dumpArgs, loadArgs []string
				switch form {
				case 0:
					dumpArgs = append(append([]string{}, flags...), "--bdump", prog+".bcl")
					loadArgs = append(append([]string{}, flags...), "--bload", prog+".bcb")
				case 1:
					dumpArgs = append(append([]string{"--bdump=o.bcb"}, flags...), prog+".bcl")
					loadArgs = append(append([]string{}, flags...), "--bload=o.bcb")
				case 2:
					dumpArgs = append([]string{prog + ".bcl", "--bdump=o.bcb"}, flags...)
					loadArgs = append([]string{"o.bcb", "--bload"}, flags...)
				}
				d := runCLI(dir, "", dumpArgs...)
				if prog == "parse" {
					if d.code != 1 {
						return fw.Failf("parse failure: status 1, no dump", "status %d", d.code)
					}
					continue
				}
				l := runCLI(dir, "", loadArgs...)
				// the disassembly header shows the file name, which differs (f.bcl vs f.bcb): compare without header lines
				strip := func(s string) string {
					var keep []string
					for _, ln := range strings.Split(s, "\n") {
						if !reHeader.MatchString(ln) {
							keep = append(keep, ln)
						}
					}
					return strings.Join(keep, "\n")
				}
				if strip(d.stdout) != strip(l.stdout) || d.code != l.code {
					return fw.Failf(fmt.Sprintf("bcl %q reproduces the output and status of bcl %q: status %d %q", loadArgs, dumpArgs, d.code, fw.Trunc(d.stdout, 300)),
						"status %d %q (stderr %q)", l.code, fw.Trunc(l.stdout, 300), fw.Trunc(stableText(l.stderr), 200))
				}
				fw.Tally("process_runs", 2)
			}
		}
		// file names whose stem ends in a letter of ".bcl", and a BFILE that already holds a longer dump
		if prog == "ok" {
			for _, stem := range []string{"calc", "lib", "abc", "x.l", "b"} {
				os.WriteFile(filepath.Join(dir, stem+".bcl"), []byte(c18Progs["ok"]), 0o644)
				d := runCLI(dir, "", "--bdump", stem+".bcl")
				if _, err := os.Stat(filepath.Join(dir, stem+".bcb")); err != nil {
					return fw.Failf("bcl --bdump "+stem+".bcl writes "+stem+".bcb", "%v (status %d)", err, d.code)
				}
				l := runCLI(dir, "", "--bload", stem+".bcb")
				if l.stdout != d.stdout || l.code != d.code {
					return fw.Failf("--bload "+stem+".bcb reproduces "+fw.Trunc(d.stdout, 200), "status %d %q %q", l.code, fw.Trunc(l.stdout, 200), fw.Trunc(stableText(l.stderr), 200))
				}
				fw.Tally("process_runs", 2)
			}
			// a BFILE name containing '=': the file of exactly that name is written, and the positional form loads it
			{
				d := runCLI(dir, "", "--bdump=env=prod.bcb", "ok.bcl")
				if _, err := os.Stat(filepath.Join(dir, "env=prod.bcb")); err != nil {
					return fw.Failf("bcl --bdump=env=prod.bcb writes the file env=prod.bcb", "%v (status %d)", err, d.code)
				}
				l := runCLI(dir, "", "--bload", "env=prod.bcb")
				if l.stdout != d.stdout || l.code != d.code {
					return fw.Failf("--bload env=prod.bcb reproduces "+fw.Trunc(d.stdout, 200), "status %d %q %q", l.code, fw.Trunc(l.stdout, 200), fw.Trunc(stableText(l.stderr), 200))
				}
				fw.Tally("process_runs", 2)
			}
			long := strings.Repeat("print \"a long program\"\n", 30)
			os.WriteFile(filepath.Join(dir, "long.bcl"), []byte(long), 0o644)
			runCLI(dir, "", "--bdump=o.bcb", "long.bcl")
			d := runCLI(dir, "", "--bdump=o.bcb", "ok.bcl")
			l := runCLI(dir, "", "--bload=o.bcb")
			if l.stdout != d.stdout || l.code != d.code {
				return fw.Failf("a BFILE that held a longer dump before is replaced: "+fw.Trunc(d.stdout, 200), "status %d %q %q", l.code, fw.Trunc(l.stdout, 200), fw.Trunc(stableText(l.stderr), 200))
			}
			// ... and holds exactly what the library dumps for that file (nothing left over from the old content)
			if lp, perr := bcl.Parse([]byte(c18Progs["ok"]), "ok.bcl", bcl.OptOutput(io.Discard), bcl.OptLogger(io.Discard)); perr == nil {
				var lb bytes.Buffer
				lp.Dump(&lb)
				got, _ := os.ReadFile(filepath.Join(dir, "o.bcb"))
				if !bytes.Equal(got, lb.Bytes()) {
					return fw.Failf(fmt.Sprintf("o.bcb rewritten by --bdump holds the library's dump of ok.bcl (%d bytes)", lb.Len()), "%d bytes, equal prefix %d", len(got), commonPrefix(got, lb.Bytes()))
				}
			}
			fw.Tally("process_runs", 3)
		}
		fw.TallyOutcome("bdump-bload-roundtrip")
	}
	fw.TallyNontrivial()
	return nil
}}

func init() {
	fw.Register(&fw.Check{
		ID:    "C18",
		Level: "model_checking",
		Rule: "(1) every argument vector of length <=L (quick 4, thorough 5) over a 28-symbol alphabet (short, long and clustered flags, --bdump/--bload with and without =BFILE and with a BFILE that itself contains '=', --, -, file names, unknown and malformed flags, -h) is fed to the real parseArgs (compiled from the working tree with a stdin/stdout server added by build overlay) and compared with a reference argument parser written from the usage text; " +
			"(2) the real binary is executed for every subset of {d,t,r,s} x every permutation of the flags around the file argument, every clustering, the long spellings and `--`, x program classes {succeeds, parse error, runtime error, empty} x file given by name / as '-' / omitted: stdout must equal what the library prints with the same options, exit status 0/1/2, diagnostics on stderr; usage errors, missing file, directory, and --bdump followed by --bload (3 spellings x 5 flag sets).",
		Subs:           []*fw.Sub{subC18Argv, subC18Run, subC18Misc},
		BudgetQuick:    100,
		BudgetThorough: 1500,
		Assumptions:    []string{"level (1) needs the identifiers parseArgs/parsedArgs of cmd/bcl; if they are renamed the overlay build fails and the check reports INFRA rather than a verdict"},
		Run: func(c *fw.Ctx) {
			// level 2
			letters := []string{"-d", "-t", "-r", "-s"}
			progs := []string{"ok", "parse", "runtime", "empty"}
			for mask := 0; mask < 16; mask++ {
				var flags []string
				for i, l := range letters {
					if mask&(1<<i) != 0 {
						flags = append(flags, l)
					}
				}
				for _, pr := range progs {
					for _, mode := range []string{"name", "dash", "omitted"} {
						nv := len(c18Variants(flags, "f.bcl"))
						for v := 0; v < nv; v++ {
							if c.Quick() && len(flags) >= 3 && v%4 != 0 && pr != "ok" {
								continue
							}
							if mode != "name" && v%3 != 0 {
								continue
							}
							c.Do(subC18Run, &c18Run{Flags: flags, Prog: pr, Mode: mode, Variant: v})
						}
					}
				}
				if c.Expired() {
					c.Cap("deadline during process runs")
					return
				}
			}
			for _, u := range []string{"usage:-x", "usage:--foo", "usage:-d1 ok.bcl", "usage:ok.bcl parse.bcl", "usage:--bdump", "usage:--bdump -", "usage:--bdumpx ok.bcl",
				"usage:--bload=ok.bcb ok.bcl", "usage:-dx ok.bcl", "usage:ok.bcl -d --nope", "help:-h", "help:-d -h", "help:ok.bcl -h -x", "help:-dh",
				"io:nonexistent.bcl", "io:adir", "io:--bload nonexistent.bcb", "io:--bdump=adir/x/y.bcb ok.bcl", "io:--bload ok.bcl", "io:--bdump=/dev/full ok.bcl", "io:--bdump=/dev/full empty.bcl",
				"bdump:ok", "bdump:runtime", "bdump:parse", "bdump:empty", "stdin-offset:", "special-files:", "special-files-2:"} {
				c.Do(subC18Misc, &c18Misc{Name: u})
			}
			// level 1
			L := 4
			if c.Thorough() {
				L = 5
			}
			if _, err := os.Stat(argvServerBin()); err != nil {
				c.Infra("argument-server binary missing (overlay build of cmd/bcl failed): %s", argvServerBin())
				return
			}
			for n := 0; n < L; n++ {
				idx := make([]int, n)
				for {
					var prefix []string
					for _, k := range idx {
						prefix = append(prefix, c18Alphabet[k])
					}
					c.Do(subC18Argv, &c18Argv{Prefix: prefix})
					k := n - 1
					for k >= 0 {
						idx[k]++
						if idx[k] < len(c18Alphabet) {
							break
						}
						idx[k] = 0
						k--
					}
					if k < 0 {
						break
					}
				}
				c.Bound("argv_length_completed", n+1)
				if c.Expired() {
					c.Cap("deadline during argv enumeration")
					return
				}
			}
		},
		Finish: func(m *fw.Merged) []string {
			var v []string
			for _, o := range []string{"argv-ok", "argv-usage-error", "argv-help", "exit-0", "exit-1", "exit-2", "bdump-bload-roundtrip", "exit-1-io"} {
				if m.Outcomes[o] == 0 {
					v = append(v, "vacuous: outcome class never observed: "+o)
				}
			}
			m.Extra["argv_vectors"] = m.Counters["argv"]
			m.Extra["process_runs"] = m.Counters["process_runs"]
			return v
		},
	})
	_ = sort.Strings
}

func commonPrefix(a, b []byte) int {
	n := 0
	for n < len(a) && n < len(b) && a[n] == b[n] {
		n++
	}
	return n
}

var unstableRe = regexp.MustCompile(`0x[0-9a-fA-F]+|\+0x[0-9a-f]+|[0-9]{5,}`)

// stableText removes what differs between two runs of the same failing command (addresses, process ids,
// random temporary names) so that a failure reproduces with the same text.
func stableText(s string) string { return unstableRe.ReplaceAllString(s, "#") }
