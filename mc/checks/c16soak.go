package checks

import (
	"bytes"
	"fmt"
	"reflect"
	"strings"
	"time"

	"github.com/wkhere/bcl"

	"verif/mc/fw"
	"verif/mc/gen"
	"verif/mc/impl"
)

// c16.soak — LONG histories (the scaled family of the history dimension): one process makes N calls in a row, every
// one with an input of its own (or the same Prog again and again), and every single call is judged against a closed-form
// expectation; at every power of two the first and the middle input are called again and must still give what they gave
// the first time. What short histories cannot reach lives here: counters that wrap after 2^8 / 2^16 calls, caches and
// pools with a capacity, tables that grow by a little on every call, state that is only wrong once something was evicted.
type c16Soak struct {
	Kind string `json:"kind"`
	N    int    `json:"n"`
}

func (c *c16Soak) Key() string { return fmt.Sprintf("%s|%d", c.Kind, c.N) }

func soakSrc(i int) string {
	return fmt.Sprintf("var v = %d\ndef b \"n%d\" {\n  x = v + 1\n  s = \"s%d\"\n}\nprint v\nbind b -> struct\n", i, i, i)
}

func soakWant(i int) string {
	blk := fmt.Sprintf("{b \"n%d\" s=str:\"s%d\" x=int:%d}", i, i, i+1)
	return fmt.Sprintf("out=%q log=\"\" err=\"\" blocks=[%s] binding=struct:%s", fmt.Sprintf("%d\n", i), blk, blk)
}

// soakErrSrc fails at run time on line i+3 (two binds first: one warning on line i+2).
func soakErrSrc(i int) string {
	return "def b { }\n" + strings.Repeat("\n", i) + "bind b -> struct\nbind b -> slice\nprint 1 + nil\n"
}

func revisit(i int) bool { return i >= 2 && (i&(i-1) == 0 || (i-1)&(i-2) == 0) }

var subC16Soak = &fw.Sub{Name: "c16.soak", New: func() fw.Case { return &c16Soak{} }, Exec: func(cs fw.Case) *fw.Fail {
	c := cs.(*c16Soak)
	return fw.Guard(func() *fw.Fail {
		t0 := time.Now()
		defer func() { fw.Tally("soak_ms:"+c.Kind, time.Since(t0).Milliseconds()) }()
		bad := func(i int, what, want, got string) *fw.Fail {
			return fw.Failf(fmt.Sprintf("call %d of %d (%s) gives what it gives as a first call: %s", i, c.N, what, fw.Trunc(want, 300)), "%s", fw.Trunc(got, 300))
		}
		switch c.Kind {
		case "interpret-distinct":
			one := func(i int) *fw.Fail {
				if got := impl.Interpret(soakSrc(i)).Summary(); got != soakWant(i) {
					return bad(i, "Interpret of a source of its own", soakWant(i), got)
				}
				return nil
			}
			for i := 0; i < c.N; i++ {
				if f := one(i); f != nil {
					return f
				}
				if revisit(i) {
					for _, j := range []int{0, 1, i / 2, i - 1} {
						if f := one(j); f != nil {
							return f
						}
					}
					fw.Heartbeat()
				}
			}
		case "parse-dump-load-exec-distinct":
			type kept struct {
				p    *bcl.Prog
				dump []byte
				i    int
			}
			var keep []kept
			for i := 0; i < c.N; i++ {
				p := impl.Parse(soakSrc(i))
				if p.Err != nil || p.Log != "" {
					return bad(i, "Parse", "accepted", fmt.Sprint(p.Err, p.Log))
				}
				d, err := impl.Dump(p.Prog)
				if err != nil {
					return bad(i, "Dump", "nil", err.Error())
				}
				r, err := impl.LoadExec(d)
				if err != nil {
					return bad(i, "LoadProg", "nil", err.Error())
				}
				if got := r.Summary(); got != soakWant(i) {
					return bad(i, "LoadProg+Execute", soakWant(i), got)
				}
				if i < 3 || revisit(i) {
					keep = append(keep, kept{p.Prog, d, i})
				}
				if revisit(i) {
					// Progs made long ago are still what they were
					for _, k := range keep {
						d2, err := impl.Dump(k.p)
						if err != nil || !bytes.Equal(d2, k.dump) {
							return bad(i, fmt.Sprintf("Dump of the Prog of call %d again", k.i), "the same bytes", fmt.Sprint(err, len(d2), len(k.dump)))
						}
						var out, log bytes.Buffer
						bl, bi, xerr := bcl.Execute(k.p, bcl.OptOutput(&out), bcl.OptLogger(&log))
						got := impl.Ran{Blocks: bl, Binding: bi, Err: xerr, Log: log.String()}
						got.Out = fmt.Sprintf("%d\n", k.i) // the program's own lines go to the writer the Prog was parsed with
						if got.Summary() != soakWant(k.i) {
							return bad(i, fmt.Sprintf("Execute of the Prog of call %d again", k.i), soakWant(k.i), got.Summary())
						}
					}
					fw.Heartbeat()
				}
			}
		case "execute-repeat", "execute-repeat-err":
			src := soakSrc(7) + "bind b -> slice\n"
			if c.Kind == "execute-repeat-err" {
				src = soakErrSrc(5)
			}
			var out, log bytes.Buffer
			p, err := bcl.Parse([]byte(src), "input", bcl.OptOutput(&out), bcl.OptLogger(&log))
			if err != nil {
				return bad(0, "Parse", "accepted", err.Error())
			}
			d0, _ := impl.Dump(p)
			first := ""
			for i := 0; i < c.N; i++ {
				out.Reset()
				log.Reset()
				bl, bi, xerr := bcl.Execute(p, bcl.OptLogger(&log))
				got := impl.Ran{Blocks: bl, Binding: bi, Err: xerr, Out: out.String(), Log: log.String()}.Summary()
				if i == 0 {
					first = got
					if !strings.Contains(first, "WARNING") {
						return bad(0, "Execute", "a warning for the second bind", first)
					}
				} else if got != first {
					return bad(i, "Execute of one Prog again", first, got)
				}
				if revisit(i) {
					if d, _ := impl.Dump(p); !bytes.Equal(d, d0) {
						return bad(i, "Dump after the executions", "the same bytes", "different bytes")
					}
					fw.Heartbeat()
				}
			}
		case "load-in-place":
			dA, okA := dumpOf(soakErrSrc(3))
			dB, okB := dumpOf(soakSrc(5) + strings.Repeat("\n", 300) + "bind b -> slice\nprint 1 / 0\n")
			if !okA || !okB {
				return bad(0, "Parse", "accepted", "rejected")
			}
			var out, log bytes.Buffer
			exec := func(p *bcl.Prog) string {
				out.Reset()
				log.Reset()
				bl, bi, xerr := bcl.Execute(p, bcl.OptLogger(&log), bcl.OptOutput(&out))
				return impl.Ran{Blocks: bl, Binding: bi, Err: xerr, Out: out.String(), Log: log.String()}.Summary()
			}
			fresh := func(d []byte) string {
				p, err := bcl.LoadProg(bytes.NewReader(d), "input", bcl.OptOutput(&out), bcl.OptLogger(&log))
				if err != nil {
					return "load error " + err.Error()
				}
				return exec(p)
			}
			wantA, wantB := fresh(dA), fresh(dB)
			if !strings.Contains(wantA, "line 6:") || !strings.Contains(wantB, "line 309:") {
				return bad(0, "LoadProg+Execute", "errors located on lines 6 / 309", wantA+" / "+wantB)
			}
			p, _ := bcl.LoadProg(bytes.NewReader(dA), "input", bcl.OptOutput(&out), bcl.OptLogger(&log))
			for i := 0; i < c.N; i++ {
				d, want := dA, wantA
				if i%2 == 1 || i%7 == 3 {
					d, want = dB, wantB
				}
				if err := p.Load(bytes.NewReader(d)); err != nil {
					return bad(i, "Load into a used Prog", "nil", err.Error())
				}
				if got := exec(p); got != want {
					return bad(i, "Load into a used Prog, Execute", want, got)
				}
				if revisit(i) {
					if d2, err := impl.Dump(p); err != nil || !bytes.Equal(d2, d) {
						return bad(i, "Dump of the re-loaded Prog", "the bytes it was loaded from", fmt.Sprint(err, len(d2), len(d)))
					}
					fw.Heartbeat()
				}
			}
		case "unmarshal-types":
			// N struct types of their own (reflect.StructOf), each bound once, the first ones again later
			mk := func(i int) (reflect.Type, string) {
				t := reflect.StructOf([]reflect.StructField{
					{Name: "Name", Type: reflect.TypeOf("")},
					{Name: fmt.Sprintf("X%d", i), Type: reflect.TypeOf(0)},
					{Name: "Tagged", Type: reflect.TypeOf(""), Tag: reflect.StructTag(fmt.Sprintf(`bcl:"k%d"`, i))},
					{Name: fmt.Sprintf("K%d", i+1), Type: reflect.TypeOf(0.5)}, // decoy for the tag of the next type
				})
				src := fmt.Sprintf("def t \"n%d\" { x%d = %d; k%d = \"v%d\" }\nbind t -> struct", i, i, i, i, i)
				return t, src
			}
			one := func(i int) *fw.Fail {
				t, src := mk(i)
				v := reflect.New(t)
				if err := impl.Unmarshal(src, v.Interface()); err != nil {
					return bad(i, "Unmarshal into a struct type of its own", "nil", err.Error())
				}
				e := v.Elem()
				got := fmt.Sprintf("%s %d %s %v", e.Field(0).String(), e.Field(1).Int(), e.Field(2).String(), e.Field(3).Float())
				if want := fmt.Sprintf("n%d %d v%d 0", i, i, i); got != want {
					return bad(i, "Unmarshal into a struct type of its own", want, got)
				}
				// the next type's key must not fit this type's decoy by way of a stale tag table
				_, srcNext := mk(i + 1)
				if err := impl.Unmarshal(srcNext, reflect.New(t).Interface()); err == nil {
					return bad(i, "Unmarshal of keys this type has no field for", "an error", "nil")
				}
				return nil
			}
			for i := 0; i < c.N; i++ {
				if f := one(i); f != nil {
					return f
				}
				if revisit(i) {
					for _, j := range []int{0, 1, i / 2} {
						if f := one(j); f != nil {
							return f
						}
					}
					fw.Heartbeat()
				}
			}
		case "parsefile-distinct":
			for i := 0; i < c.N; i++ {
				src := soakSrc(i)
				if i%5 == 4 {
					src = soakErrSrc(i % 50)
				}
				want := impl.Parse(src)
				wd, _ := impl.Dump(want.Prog)
				got := impl.ParseFile(impl.NewScriptFile(src, impl.Chunks(7, 1, 13, 7, 7, 7, 7, 7, 7, 7, 7, 7, 7, 7, 7)))
				if (got.Err == nil) != (want.Err == nil) || got.Log != want.Log {
					return bad(i, "ParseFile in 7-byte reads", fmt.Sprint(want.Err, want.Log), fmt.Sprint(got.Err, got.Log))
				}
				if gd, _ := impl.Dump(got.Prog); !bytes.Equal(gd, wd) {
					return bad(i, "ParseFile in 7-byte reads", "the dump Parse gives", "another dump")
				}
				if revisit(i) {
					fw.Heartbeat()
				}
			}
		case "diagnostics-distinct":
			// a compile diagnostic and a run-time error / warning on a line of its own in every call
			for i := 0; i < c.N; i++ {
				k := i % 700
				p := impl.Parse(strings.Repeat("\n", k) + "print )\n")
				if want := fmt.Sprintf("line %d:8: error", k+1); p.Err == nil || !strings.HasPrefix(p.Log, want) {
					return bad(i, "Parse of a faulty source", want, p.Log)
				}
				r := impl.Interpret(soakErrSrc(k))
				if want := fmt.Sprintf("line %d:", k+4); !strings.Contains(r.ErrText(), want) || !strings.Contains(r.Log, fmt.Sprintf("WARNING: line %d:", k+3)) {
					return bad(i, "Interpret of a source that warns and fails", want+" in the error, the line before it in the warning", r.ErrText()+" / "+r.Log)
				}
				if revisit(i) {
					fw.Heartbeat()
				}
			}
		case "parse-repeat-wide":
			// sources with thousands of distinct identifiers / constants / lines compile to the same bytes every time
			// (tables that evict, rehash or get iterated only behave differently once they are big)
			for _, fam := range gen.DenseFamilies(c.N > 6000) {
				if !strings.HasPrefix(fam.Name, "dense-idents-") && fam.Name != "dense-ints-3" && fam.Name != "dense-consts-330" && fam.Name != "dense-locals-330" {
					continue
				}
				var first []byte
				for rep := 0; rep < 6; rep++ {
					p := impl.Parse(fam.Src)
					if p.Err != nil {
						return bad(rep, "Parse of "+fam.Name, "accepted", p.Log)
					}
					d, _ := impl.Dump(p.Prog)
					if rep == 0 {
						first = d
					} else if !bytes.Equal(d, first) {
						return bad(rep, "Parse of "+fam.Name+" again, Dump", fmt.Sprintf("the same %d bytes", len(first)), fmt.Sprintf("%d other bytes", len(d)))
					}
				}
				fw.Heartbeat()
			}
		default:
			return fw.Failf("known soak kind", "%s", c.Kind)
		}
		fw.Tally("soak_calls", int64(c.N))
		fw.TallyOutcome("long-history-independent")
		fw.TallyNontrivial()
		return nil
	})
}}

var c16SoakKinds = []string{"interpret-distinct", "parse-dump-load-exec-distinct", "execute-repeat", "execute-repeat-err", "load-in-place", "unmarshal-types", "parsefile-distinct", "diagnostics-distinct", "parse-repeat-wide"}

func c16SoakCases(thorough bool) []*c16Soak {
	var cs []*c16Soak
	for _, k := range c16SoakKinds {
		n := 70000
		switch k {
		case "unmarshal-types":
			n = 3000
		case "parse-repeat-wide":
			n = 6000 // the widest source (thorough: 20000 identifiers)
		case "parsefile-distinct", "parse-dump-load-exec-distinct":
			n = 20000
		case "diagnostics-distinct":
			n = 8000
		}
		if thorough {
			n *= 4
			if k == "unmarshal-types" || k == "parse-repeat-wide" {
				n = 20000
			}
		}
		cs = append(cs, &c16Soak{Kind: k, N: n})
	}
	return cs
}
