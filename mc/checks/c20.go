package checks

import (
	"bytes"
	"fmt"
	"strings"

	"verif/mc/bc"
	"verif/mc/fw"
	"verif/mc/gen"
	"verif/mc/impl"
	"verif/mc/ref"
)

// C20 — layout, comments and redundant parentheses never change meaning.

type c20Case struct {
	Canon   string `json:"canon"`
	Variant string `json:"variant"`
}

func (c *c20Case) Key() string      { return c.Variant }
func (c *c20Case) ShardKey() string { return strings.TrimPrefix(c.Canon, "\x00paren:") }

type meaning struct {
	rejected  bool
	firstDiag string // message + quoted token of the first diagnostic
	code      []byte
	consts    string
	run       string
}

var meaningCache = map[string]*meaning{}

func stripPos(s string) string {
	// "runtime error: line L:C: msg" -> msg
	if m := rtRe.FindStringSubmatch(s); m != nil {
		return "runtime error: " + m[3]
	}
	return s
}

func meaningOf(src string) (m *meaning, fail string) {
	defer func() {
		if r := recover(); r != nil {
			m, fail = nil, fmt.Sprint("panic: ", r)
		}
	}()
	m = &meaning{}
	p := impl.Parse(src)
	if p.Err != nil {
		m.rejected = true
		if lines := strings.SplitN(p.Log, "\n", 2); len(lines) > 0 {
			l := lines[0]
			if i := strings.Index(l, ": error"); i >= 0 {
				m.firstDiag = l[i+2:]
			} else {
				m.firstDiag = l
			}
		}
		return m, ""
	}
	d, err := impl.Dump(p.Prog)
	if err != nil {
		return nil, "dump: " + err.Error()
	}
	dp, err := bc.Decode(d)
	if err != nil {
		return nil, "decode: " + err.Error()
	}
	m.code = dp.Code
	m.consts = fmt.Sprintf("%#v", dp.Consts)
	r := impl.Interpret(src)
	warn := strings.Count(r.Log, "WARNING")
	m.run = fmt.Sprintf("out=%q err=%q warnings=%d blocks=%s binding=%s", r.Out, stripPos(r.ErrText()), warn, impl.BlocksStr(r.Blocks), impl.BindingStr(r.Binding))
	return m, ""
}

func c20Exec(cs fw.Case) *fw.Fail {
	c := cs.(*c20Case)
	if excluded(c.Canon) {
		return nil
	}
	// sanity of the generator: both renderings have the same token sequence per the reference lexer
	ta, fa := ref.Lex(c.Canon)
	tb, fb := ref.Lex(c.Variant)
	sameToks := len(ta) == len(tb) && (fa == nil) == (fb == nil)
	if sameToks {
		for i := range ta {
			if ta[i].Text != tb[i].Text {
				sameToks = false
			}
		}
	}
	if !sameToks && !strings.HasPrefix(c.Canon, "\x00paren:") {
		fw.TallyOutcome("not-a-layout-variant")
		return nil
	}
	canonSrc := strings.TrimPrefix(c.Canon, "\x00paren:")
	want, ok := meaningCache[canonSrc]
	if !ok {
		var fail string
		want, fail = meaningOf(canonSrc)
		if fail != "" {
			fw.TallyOutcome("canonical-not-compilable")
			return nil // C06/C09's business
		}
		if len(meaningCache) > 2000 {
			meaningCache = map[string]*meaning{}
		}
		meaningCache[canonSrc] = want
	}
	got, fail := meaningOf(c.Variant)
	if fail != "" {
		return fw.Failf("same meaning as the canonical rendering", "%s", fail)
	}
	// a huge layout must also be accepted by the file API (read in its real pages)
	if len(c.Variant) > 60000 {
		whole := obsWhole(c.Variant)
		fileObs, _ := obsFile(c.Variant, nil)
		if d := diffObs(whole, fileObs); d != "" {
			return fw.Failf("ParseFile accepts the layout that Parse accepts (a separator of tens of thousands of bytes)", "%s", d)
		}
	}
	// comments must also end at CR/LF only when the source arrives in pieces (file API)
	if strings.Contains(c.Variant, "#") && len(c.Variant) <= 200 {
		whole := obsWhole(c.Variant)
		for _, k := range []int{1, 3, 7, 16} {
			var sizes []int
			for n := 0; n < len(c.Variant); n += k {
				sizes = append(sizes, k)
			}
			fw.Tally("chunked_comment_parses", 1)
			got, _ := obsFile(c.Variant, scriptOf(sizes))
			if d := diffObs(whole, got); d != "" {
				return fw.Failf("a comment ends at the next CR or LF and nowhere else, also when read in pieces", "reads of %d bytes: %s", k, d)
			}
		}
	}
	const exp = "same instructions, constants, output, blocks, binding and error as the canonical rendering "
	switch {
	case want.rejected != got.rejected:
		return fw.Failf(exp+fmt.Sprintf("(%q rejected=%v)", canonSrc, want.rejected), "rejected=%v (%s)", got.rejected, got.firstDiag)
	case want.rejected:
		if want.firstDiag != got.firstDiag {
			return fw.Failf("same first diagnostic: "+want.firstDiag, "%s", got.firstDiag)
		}
		fw.TallyOutcome("rejected-same-diagnostic")
	default:
		if !bytes.Equal(want.code, got.code) {
			return fw.Failf(exp+"(code)", "instructions differ: % x vs % x", trimBytes(want.code), trimBytes(got.code))
		}
		if want.consts != got.consts {
			return fw.Failf(exp+"(constants "+fw.Trunc(want.consts, 200)+")", "%s", fw.Trunc(got.consts, 200))
		}
		if want.run != got.run {
			return fw.Failf(exp+fw.Trunc(want.run, 300), "%s", fw.Trunc(got.run, 300))
		}
		fw.TallyOutcome("accepted-same-meaning")
	}
	fw.TallyNontrivial()
	return nil
}

func trimBytes(b []byte) []byte {
	if len(b) > 48 {
		return b[:48]
	}
	return b
}

var subC20 = &fw.Sub{Name: "c20.layout", New: func() fw.Case { return &c20Case{} }, Exec: c20Exec}
var subC20Str = newRefSub("c20.strings")

// exprNodes collects all expression nodes of a program.
func exprNodes(p *ref.Program) []*ref.Node {
	var out []*ref.Node
	var walkN func(n *ref.Node)
	walkN = func(n *ref.Node) {
		if n == nil {
			return
		}
		out = append(out, n)
		walkN(n.L)
		walkN(n.R)
	}
	var walkS func(ss []*ref.Stmt)
	walkS = func(ss []*ref.Stmt) {
		for _, s := range ss {
			walkN(s.X)
			walkS(s.Body)
		}
	}
	walkS(p.Stmts)
	return out
}

func stmtEnds(p *ref.Program) []int {
	var out []int
	var walk func(ss []*ref.Stmt)
	walk = func(ss []*ref.Stmt) {
		for _, s := range ss {
			out = append(out, s.End)
			walk(s.Body)
		}
	}
	walk(p.Stmts)
	return out
}

func init() {
	fw.Register(&fw.Check{
		ID:    "C20",
		Level: "model_checking",
		Rule: "for every program of the corpus (accepted and rejected, <=40 tokens): the canonical single-space rendering versus every re-rendering with <=k deviating gaps (k=2 for <=8 tokens (thorough <=12; thorough k=3 for <=5 tokens), else 1), each deviating gap taking each of 25 separators {nothing where the reference lexer allows adjacency, tab, VT, FF, CR, LF, CR LF, U+0085, U+00A0, mixes, comments whose bodies hold quotes, backslash, keywords, non-ASCII, '#', ';', ')', U+0085 and end in LF or CR}; all gaps set to one separator; the optional ';' toggled after each statement; " +
			"each whole sub-expression wrapped in 1 or 2 redundant pairs of parentheses. Oracle: identical code and constants sections (independent decoder), identical output/blocks/binding/error message/warning count; rejected stays rejected with the same first diagnostic. " +
			"Huge layouts (70000 blanks / tabs / CRs / LFs between two tokens, a 70000-byte comment) through Parse and ParseFile. Conversely: string literals holding each of 14 special characters at each position of a 3-character body and comments placed before tokens are checked against the reference evaluator byte for byte.",
		Subs:           []*fw.Sub{subC20, subC20Str},
		BudgetQuick:    100,
		BudgetThorough: 1500,
		Assumptions:    []string{"the reference lexer decides where adjacency is not a layout (== vs = =, - > vs ->, 1 e5, a \"b\")"},
		Run: func(c *fw.Ctx) {
			seps := append(append([]string{}, gen.SepsBasic...), gen.SepsComments...)
			k2 := 8
			if c.Thorough() {
				k2 = 12
			}
			progs := append([]string{}, gen.Small()...)
			// statements that end in a name and are followed, without ';', by a statement that starts with a parenthesis
			progs = append(progs, "def b { x = 1 y = x ( z = x + 1 ) w = y ( 2 ) }", "def b { v = x ( 3 ) ( 4 ) }", "var x = 1 def b { y = x ( x = 2 ) }",
				// literals directly followed by identifiers that start with an underscore
				"def b { x = 1 _y = 2 z = 0x1F _ = 3 w = \"s\" _y = 2.5 _z = 1e3 _q = 4 }")
			// more than a thousand redundantly parenthesised expressions in one source (none nested deeper than 2)
			{
				canon := strings.Repeat("print 1 + 2 ", 1100) + "def b { x = 3 }"
				c.Do(subC20, &c20Case{Canon: "\x00paren:" + canon, Variant: strings.Repeat("print ( 1 + 2 ) ", 1100) + "def b { x = ( 3 ) }"})
				c.Do(subC20, &c20Case{Canon: "\x00paren:" + canon, Variant: strings.Repeat("print ( ( 1 ) + ( 2 ) ) ", 1100) + "def b { x = ( ( 3 ) ) }"})
			}
			// huge layout: 70000 blanks / tabs / CRs between two tokens, a 70000-byte comment (a layout is never "too long")
			{
				canon := "var a = 1 print a + 2 def b { x = a }"
				for _, big := range []string{strings.Repeat(" ", 70000), strings.Repeat("\t", 70000), strings.Repeat("\r", 70000), " #" + strings.Repeat("c", 70000) + "\n", strings.Repeat("\n", 70000), strings.Repeat(" \u00a0", 30000)} {
					for _, at := range []string{"1 print", "+ 2", "{ x"} {
						v := strings.Replace(canon, at, strings.Replace(at, " ", big, 1), 1)
						c.Do(subC20, &c20Case{Canon: canon, Variant: v})
					}
				}
			}
			for _, e := range gen.ExprPrograms([]string{"2", "2.5", `"a"`, "nil"}) {
				progs = append(progs, e)
			}
			// unparenthesised chains of three operands with every operator pair: their redundant
			// parenthesisations (per the documented grouping) must compile to the same code
			parenOnly := map[string]bool{}
			for _, op1 := range gen.BinOps {
				for _, op2 := range gen.BinOps {
					chains := []string{"print 2 " + op1 + " 3 " + op2 + " 5", "print false " + op1 + " 1 " + op2 + " 2"}
					for _, pre := range gen.PreOps {
						chains = append(chains, "print "+pre+" 2 "+op1+" 3 "+op2+" 5", "print 2 "+op1+" "+pre+" 3 "+op2+" 5")
					}
					for _, ch := range chains {
						parenOnly[ch] = true
						progs = append(progs, ch)
					}
				}
			}
			for _, src := range progs {
				toks, tail := gen.SplitTokens(src)
				if len(toks) == 0 || len(toks) > 40 {
					continue
				}
				canonSeps := gen.CanonSeps(len(toks))
				if tail != "" {
					canonSeps[len(toks)] = " "
				}
				canon := gen.Render(toks, canonSeps, tail)
				if !c.Mine(canon) {
					continue
				}
				do := func(v string) bool {
					c.Do(subC20, &c20Case{Canon: canon, Variant: v})
					return !c.Expired()
				}
				k := 1
				if len(toks) <= k2 {
					k = 2
				}
				if c.Thorough() && len(toks) <= 5 {
					k = 3
				}
				if parenOnly[src] {
					k = 0 // the chains are there for their parenthesisations; layouts are covered by the corpus programs
				}
				if !gen.Layouts(toks, tail, seps, k, do) {
					c.Cap("deadline during layouts")
					return
				}
				for _, s := range append(seps, "   ", "\n\n\n") {
					if parenOnly[src] {
						break
					}
					if r, ok := gen.AllSame(toks, tail, s); ok {
						do(r)
					}
				}
				// ';' toggles and redundant parentheses need the reference AST
				prog, diag := ref.Parse(canon)
				if diag != nil {
					continue
				}
				for _, e := range stmtEnds(prog) {
					rest := canon[e:]
					t := strings.TrimLeft(rest, " ")
					var v string
					if strings.HasPrefix(t, ";") {
						v = canon[:e] + strings.Replace(rest, ";", "", 1)
					} else {
						v = canon[:e] + " ;" + rest
					}
					// a toggled ';' changes the token sequence; compare meaning directly
					c.Do(subC20, &c20Case{Canon: "\x00paren:" + canon, Variant: v})
				}
				nodes := exprNodes(prog)
				for i, n := range nodes {
					for pairs := 1; pairs <= 2; pairs++ {
						l, r := strings.Repeat("( ", pairs), strings.Repeat(" )", pairs)
						v := canon[:n.Start] + l + canon[n.Start:n.End] + r + canon[n.End:]
						c.Do(subC20, &c20Case{Canon: "\x00paren:" + canon, Variant: v})
						if c.Thorough() || len(nodes) <= 6 {
							for _, m := range nodes[i+1:] {
								// two sites: disjoint or nested
								if m.Start >= n.End || (m.Start >= n.Start && m.End <= n.End) {
									var w string
									if m.Start >= n.End {
										w = canon[:n.Start] + l + canon[n.Start:n.End] + r + canon[n.End:m.Start] + "(" + canon[m.Start:m.End] + ")" + canon[m.End:]
									} else {
										w = canon[:n.Start] + l + canon[n.Start:m.Start] + "(" + canon[m.Start:m.End] + ")" + canon[m.End:n.End] + r + canon[n.End:]
									}
									c.Do(subC20, &c20Case{Canon: "\x00paren:" + canon, Variant: w})
								}
							}
						}
					}
				}
				if c.Expired() {
					return
				}
			}
			// conversely: nothing inside a string literal is layout; comments end at CR/LF only
			specials := []string{"#", ";", "(", ")", "{", "}", " ", "\t", " ", "é", `\"`, `\\`, "\r", "'", "=", "\u0085"}
			for _, a := range specials {
				for _, b := range specials {
					for pos := 0; pos < 3; pos++ {
						body := []string{"x", "y", "z"}
						body[pos] = a
						body[(pos+1)%3] = b
						lit := `"` + strings.Join(body, "") + `"`
						c.Do(subC20Str, &progCase{Src: "print " + lit + " + \"|\"\ndef b " + lit + " { f = " + lit + " }"})
					}
				}
			}
			for _, cm := range gen.SepsComments {
				for _, tk := range []string{"print 1", "var x = 2 print x", "def b { y = 3 }", ")", "\"s\""} {
					c.Do(subC20Str, &progCase{Src: "print 0 " + cm + tk})
					c.Do(subC20Str, &progCase{Src: cm + tk})
				}
			}
		},
		Finish: func(m *fw.Merged) []string {
			var v []string
			for _, o := range []string{"accepted-same-meaning", "rejected-same-diagnostic", "accepted-ok"} {
				if m.Outcomes[o] == 0 {
					v = append(v, "vacuous: outcome class never observed: "+o)
				}
			}
			return v
		},
	})
}
