package checks

import (
	"bytes"
	"fmt"
	"io"
	"os"
	"regexp"
	"strings"
	"testing/iotest"

	"github.com/wkhere/bcl"

	"verif/mc/bc"
	"verif/mc/fw"
	"verif/mc/gen"
	"verif/mc/impl"
)

// C09 — bytecode dump and load round trip preserves the program.

type c09Case struct {
	Name  string `json:"name"`
	Src   string `json:"src"`
	PName string `json:"pname"` // program name
	Cuts  int    `json:"cuts"`  // max number of cut points enumerated for the read partitions
}

func (c *c09Case) Key() string { return fmt.Sprintf("%s|%d|%d", c.Name, len(c.PName), c.Cuts) }

func (c *c09Case) ShardKey() string { return c.Name }

// partReader delivers data cut at the given offsets (ascending).
type partReader struct {
	data []byte
	cuts []int
	pos  int
	k    int
}

func (r *partReader) Read(p []byte) (int, error) {
	if r.pos >= len(r.data) {
		return 0, io.EOF
	}
	end := len(r.data)
	for r.k < len(r.cuts) && r.cuts[r.k] <= r.pos {
		r.k++
	}
	if r.k < len(r.cuts) {
		end = r.cuts[r.k]
	}
	n := copy(p, r.data[r.pos:end])
	r.pos += n
	return n, nil
}

// fixedReader delivers at most k bytes per read.
type fixedReader struct {
	data []byte
	k    int
	pos  int
}

func (r *fixedReader) Read(p []byte) (int, error) {
	if r.pos >= len(r.data) {
		return 0, io.EOF
	}
	n := r.k
	if n > len(p) {
		n = len(p)
	}
	if n > len(r.data)-r.pos {
		n = len(r.data) - r.pos
	}
	copy(p, r.data[r.pos:r.pos+n])
	r.pos += n
	return n, nil
}

type observed struct {
	disasm string
	run    string
	dump   []byte
}

func observeProg(p *bcl.Prog, disasm string) (o observed, fail string) {
	o.disasm = disasm
	var out, log bytes.Buffer
	_ = log
	bl, bi, err := bcl.Execute(p, bcl.OptOutput(&out))
	r := impl.Ran{Blocks: bl, Binding: bi, Err: err}
	o.run = r.Summary()
	d, derr := impl.Dump(p)
	if derr != nil {
		return o, "Dump error: " + derr.Error()
	}
	o.dump = d
	return o, ""
}

func c09Exec(cs fw.Case) *fw.Fail {
	c := cs.(*c09Case)
	if excluded(c.Src) {
		return nil
	}
	return fw.Guard(func() *fw.Fail {
		var pout, plog bytes.Buffer
		prog, err := bcl.Parse([]byte(c.Src), c.PName, bcl.OptOutput(&pout), bcl.OptLogger(&plog), bcl.OptDisasm(true))
		if err != nil {
			fw.TallyOutcome("rejected")
			return nil
		}
		disasm0 := pout.String()
		pout.Reset()
		var dbuf bytes.Buffer
		if derr := prog.Dump(&dbuf); derr != nil {
			return fw.Failf("Dump succeeds", "Dump error: %v", derr)
		}
		dump := append([]byte{}, dbuf.Bytes()...)
		// run the original (its output goes to pout, its log to plog)
		bl, bi, xerr := bcl.Execute(prog)
		orig := impl.Ran{Blocks: bl, Binding: bi, Err: xerr, Out: pout.String(), Log: plog.String()}.Summary()

		// independent decoder: the layout is the documented one and the parts are the program's
		dp, derr := bc.Decode(dump)
		if derr != nil {
			return fw.Failf("dump follows the documented layout", "independent decoder: %v", derr)
		}
		if dp.Name != c.PName {
			return fw.Failf("name section = program name", "decoded name of %d bytes, given %d bytes", len(dp.Name), len(c.PName))
		}
		var lfs []int
		for i := 0; i < len(c.Src); i++ {
			if c.Src[i] == '\n' {
				lfs = append(lfs, i)
			}
		}
		if fmt.Sprint(lfs) != fmt.Sprint(dp.Lfs) {
			return fw.Failf("line table = newline offsets of the source", "decoded %v, source has %v", trimInts(dp.Lfs), trimInts(lfs))
		}

		loads := 0
		try := func(what string, r io.Reader) *fw.Fail {
			loads++
			var lout, llog bytes.Buffer
			lp, lerr := bcl.LoadProg(r, "ignored-name", bcl.OptOutput(&lout), bcl.OptLogger(&llog), bcl.OptDisasm(true))
			if lerr != nil {
				return fw.Failf("LoadProg succeeds ("+what+")", "error: %v", lerr)
			}
			if lout.String() != disasm0 {
				return fw.Failf("same disassembly ("+what+")", "parsed:\n%s\nloaded:\n%s", fw.Trunc(disasm0, 400), fw.Trunc(lout.String(), 400))
			}
			lout.Reset()
			bl, bi, xerr := bcl.Execute(lp)
			got := impl.Ran{Blocks: bl, Binding: bi, Err: xerr, Out: lout.String(), Log: llog.String()}.Summary()
			if got != orig {
				return fw.Failf("same execution ("+what+"): "+fw.Trunc(orig, 300), "%s", fw.Trunc(got, 300))
			}
			var d2 bytes.Buffer
			if derr := lp.Dump(&d2); derr != nil {
				return fw.Failf("re-dump succeeds", "%v", derr)
			}
			if !bytes.Equal(d2.Bytes(), dump) {
				return fw.Failf("re-dump byte-identical ("+what+")", "differs: %d vs %d bytes", d2.Len(), len(dump))
			}
			return nil
		}
		if f := try("whole", bytes.NewReader(dump)); f != nil {
			return f
		}
		if len(dump) <= 1000000 {
			if f := try("1 byte per read", iotest.OneByteReader(bytes.NewReader(dump))); f != nil {
				return f
			}
		}
		if f := try("data with EOF", iotest.DataErrReader(bytes.NewReader(dump))); f != nil {
			return f
		}
		// real files: a pipe (not seekable, short reads) and a regular file the caller has positioned behind a header
		if len(dump) <= 60000 {
			if pr, pw, perr := os.Pipe(); perr == nil {
				go func() { pw.Write(dump); pw.Close() }()
				f := try("*os.File that is a pipe", pr)
				pr.Close()
				if f != nil {
					return f
				}
			}
			if tmp, terr := os.CreateTemp(fw.WorkDir(), "c09-*.bcb"); terr == nil {
				tmp.Write([]byte("HEADER\x00\x01"))
				tmp.Write(dump)
				tmp.Write([]byte("TRAILER"))
				tmp.Seek(8, io.SeekStart)
				f := try("*os.File positioned behind an 8-byte header, with a trailer", tmp)
				pos, _ := tmp.Seek(0, io.SeekCurrent)
				tmp.Close()
				os.Remove(tmp.Name())
				if f != nil {
					return f
				}
				if pos < 8+int64(len(dump)) {
					return fw.Failf("LoadProg consumes the dump from a positioned file", "file offset %d after the load, the dump ends at %d", pos, 8+len(dump))
				}
			}
		}
		// the dump is a part of a larger stream and the reader stands at its first byte: behind a header, behind another
		// stored dump (seekable readers: a loader has no business moving them anywhere else)
		{
			r := bytes.NewReader(append([]byte("HEADER\x00\x01"), dump...))
			r.Seek(8, io.SeekStart)
			if f := try("bytes.Reader positioned behind an 8-byte header", r); f != nil {
				return f
			}
			if other, ok := dumpOf("print \"another stored program\""); ok {
				r := bytes.NewReader(append(append([]byte{}, other...), dump...))
				r.Seek(int64(len(other)), io.SeekStart)
				if f := try("bytes.Reader positioned behind another stored dump", r); f != nil {
					return f
				}
			}
		}
		if f := try("half reads", iotest.HalfReader(bytes.NewReader(dump))); f != nil {
			return f
		}
		for _, k := range []int{2, 3, 4, 5, 6, 7, 8, 9, 10, 11, 12, 13, 14, 15, 16, 17, 4095, 4096, 4097} {
			if k >= len(dump) && k > 17 {
				continue
			}
			if len(dump) > 1000000 && k < 4095 {
				continue // megabyte dumps: page-sized deliveries only
			}
			if f := try(fmt.Sprintf("%d bytes per read", k), &fixedReader{data: dump, k: k}); f != nil {
				return f
			}
		}
		n := len(dump)
		if c.Cuts >= 1 {
			for a := 1; a < n; a++ {
				if f := try(fmt.Sprintf("cut at %d", a), &partReader{data: dump, cuts: []int{a}}); f != nil {
					return f
				}
			}
		}
		if c.Cuts >= 2 {
			for a := 1; a < n; a++ {
				for b := a + 1; b < n; b++ {
					if f := try(fmt.Sprintf("cuts at %d,%d", a, b), &partReader{data: dump, cuts: []int{a, b}}); f != nil {
						return f
					}
				}
			}
		}
		if c.Cuts >= 3 {
			for a := 1; a < n; a++ {
				for b := a + 1; b < n; b++ {
					for d := b + 1; d < n; d++ {
						if f := try(fmt.Sprintf("cuts at %d,%d,%d", a, b, d), &partReader{data: dump, cuts: []int{a, b, d}}); f != nil {
							return f
						}
					}
				}
			}
		}
		// the exported Load method into a Prog that already holds another program (parsed from a longer
		// source with more constants and lines; then loaded a second time): nothing of the old one remains
		{
			var uout, ulog bytes.Buffer
			used, uerr := bcl.Parse([]byte(c09UsedSrc), "used", bcl.OptOutput(&uout), bcl.OptLogger(&ulog))
			if uerr != nil {
				return fw.Failf("the filler program parses", "%v", uerr)
			}
			// the Prog has also RUN before (whatever a run leaves behind in the Prog must not reach the loaded program)
			bcl.Execute(used)
			for round := 1; round <= 2; round++ {
				loads++
				if lerr := used.Load(bytes.NewReader(dump)); lerr != nil {
					return fw.Failf(fmt.Sprintf("Load into a used Prog succeeds (round %d)", round), "error: %v", lerr)
				}
				uout.Reset()
				ulog.Reset()
				bl, bi, xerr := bcl.Execute(used)
				got := impl.Ran{Blocks: bl, Binding: bi, Err: xerr, Out: uout.String(), Log: ulog.String()}.Summary()
				if got != orig {
					return fw.Failf(fmt.Sprintf("same execution after Load into a used Prog (round %d): %s", round, fw.Trunc(orig, 300)), "%s", fw.Trunc(got, 300))
				}
				var d2 bytes.Buffer
				if derr := used.Dump(&d2); derr != nil {
					return fw.Failf("re-dump succeeds", "%v", derr)
				}
				if !bytes.Equal(d2.Bytes(), dump) {
					return fw.Failf(fmt.Sprintf("re-dump byte-identical after Load into a used Prog (round %d)", round), "differs: %d vs %d bytes, equal prefix %d", d2.Len(), len(dump), commonPrefix(d2.Bytes(), dump))
				}
			}
		}
		// ... and into a Prog that held (and ran) a SHADOW of this very program: the same source with every name and
		// string spelled differently, so that every constant index, slot and code offset of the old program coincides
		// with one of the new program while the texts differ — anything the Prog remembers by index is stale now
		if len(c.Src) <= 20000 {
			shadowSrc := c09Rename.ReplaceAllStringFunc(c.Src, func(w string) string {
				if c09Keep[w] {
					return w
				}
				return w + "Q"
			})
			var sout, slog bytes.Buffer
			if shadow, serr := bcl.Parse([]byte(shadowSrc), "shadow", bcl.OptOutput(&sout), bcl.OptLogger(&slog)); serr == nil {
				bcl.Execute(shadow)
				loads++
				if lerr := shadow.Load(bytes.NewReader(dump)); lerr != nil {
					return fw.Failf("Load into a Prog that held a renamed twin of the program succeeds", "error: %v", lerr)
				}
				sout.Reset()
				slog.Reset()
				bl, bi, xerr := bcl.Execute(shadow)
				got := impl.Ran{Blocks: bl, Binding: bi, Err: xerr, Out: sout.String(), Log: slog.String()}.Summary()
				if got != orig {
					return fw.Failf("same execution after Load into a Prog that held and ran a renamed twin of the program: "+fw.Trunc(orig, 300), "%s", fw.Trunc(got, 300))
				}
				var d2 bytes.Buffer
				if derr := shadow.Dump(&d2); derr != nil || !bytes.Equal(d2.Bytes(), dump) {
					return fw.Failf("re-dump byte-identical after Load into a Prog that held a renamed twin", "differs: %d vs %d bytes (%v)", d2.Len(), len(dump), derr)
				}
				fw.Tally("shadow_loads", 1)
			}
		}
		fw.Tally("loads", int64(loads))
		fw.Tally("partitions", int64(loads))
		fw.TallyOutcome("roundtrip-ok")
		fw.TallyNontrivial()
		return nil
	})
}

var c09Rename = regexp.MustCompile(`\b[A-Za-z_][A-Za-z0-9_]*\b`)
var c09Keep = map[string]bool{"var": true, "def": true, "eval": true, "print": true, "bind": true, "true": true, "false": true, "nil": true, "not": true, "and": true, "or": true,
	"first": true, "last": true, "all": true, "struct": true, "slice": true, "TYPE": true, "NAME": true}

// c09UsedSrc: what a Prog holds before a dump is loaded into it (more lines, constants and code than most dumps)
var c09UsedSrc = strings.Repeat("\n# filler\n", 30) + "var u1 = \"old string constant\"\nvar u2 = 123456\nprint u1 + u2\ndef old_block \"old name\" { old_field = 2.5; def kid \"k\" { v = 1 }; def kid { v = 2 }; def other { def kid \"k\" { } } }\nbind old_block -> struct\nbind old_block -> slice\n\n\n"

func trimInts(x []int) string {
	s := fmt.Sprint(x)
	return fw.Trunc(s, 120)
}

// c09.dumpfaults: Dump into a destination that accepts k bytes and then fails: Dump must report an error for
// every k below the size of the dump (a nil return means the file is complete).
type c09Fault struct {
	Name string `json:"name"`
	Src  string `json:"src"`
}

func (c *c09Fault) Key() string { return c.Name }

type limitedWriter struct {
	room  int
	wrote int
	short bool // accept a part of the failing write
}

func (w *limitedWriter) Write(p []byte) (int, error) {
	if w.room >= len(p) {
		w.room -= len(p)
		w.wrote += len(p)
		return len(p), nil
	}
	n := 0
	if w.short {
		n = w.room
	}
	w.wrote += n
	w.room = 0
	return n, fmt.Errorf("no space left on device")
}

var subC09Fault = &fw.Sub{Name: "c09.dumpfaults", New: func() fw.Case { return &c09Fault{} }, Exec: func(cs fw.Case) *fw.Fail {
	c := cs.(*c09Fault)
	return fw.Guard(func() *fw.Fail {
		p := impl.Parse(c.Src)
		if p.Err != nil {
			return nil
		}
		full, err := impl.Dump(p.Prog)
		if err != nil {
			return nil
		}
		n := len(full)
		points := 0
		for k := 0; k < n; k++ {
			// all fail points for small dumps; for large ones the first and last 300, every buffer boundary +-3, every 61st
			if n > 3000 && !(k < 300 || k >= n-300 || k%4096 <= 3 || k%4096 >= 4093 || k%61 == 0) {
				continue
			}
			for _, short := range []bool{false, true} {
				w := &limitedWriter{room: k, short: short}
				derr := p.Prog.Dump(w)
				points++
				if derr == nil {
					return fw.Failf(fmt.Sprintf("Dump reports an error when the destination fails after %d of %d bytes", k, n), "nil error (short write=%v, %d bytes reached the destination)", short, w.wrote)
				}
			}
		}
		// and with enough room it succeeds and writes exactly the dump
		w := &limitedWriter{room: n}
		if derr := p.Prog.Dump(w); derr != nil || w.wrote != n {
			return fw.Failf("Dump succeeds when the destination has room for all bytes", "err=%v wrote %d of %d", derr, w.wrote, n)
		}
		fw.Tally("fail_points", int64(points))
		fw.TallyOutcome("dump-faults-reported")
		fw.TallyNontrivial()
		return nil
	})
}}

var subC09 = &fw.Sub{Name: "c09.roundtrip", New: func() fw.Case { return &c09Case{} }, Exec: c09Exec}

func init() {
	fw.Register(&fw.Check{
		ID:    "C09",
		Level: "model_checking",
		Rule: "for every accepted program of the core corpus K and the scaled families S (string / identifier / block-name lengths around 94, 240/241, 2287/2288, 4096, 67823/67824; constant pools of 240..242; offsets in every varint class; boundary floats) and for program names of length 0..67824 and names holding %, NUL, newline, non-ASCII and invalid UTF-8 bytes: " +
			"Dump, then LoadProg under every read delivery of a bounded family (whole, 1 byte/read, data+EOF, halves, every fixed size 2..17 and 4095..4097, every partition with <=k cut points: k=1 for dumps <=6000 B, k=2 for <=150 B (thorough <=900 B), k=3 for <=48 B (thorough <=110 B)); " +
			"oracle: nil errors, identical disassembly, identical execution (output, blocks, binding, warnings, error text incl. position), byte-identical re-dump (also after loading the dump twice with the exported Load method into a Prog that held a larger program), and the independent decoder recovers the name and a line table equal to the newline offsets of the source. Thorough adds every program of the C01-C04 enumerations under the whole / 1-byte / fixed-size deliveries. A case is (program, name); counters.loads counts LoadProg calls. Sub-check c09.dumpfaults: Dump of 8 programs (small; string constants of 5-20 kB; 9-40 kB of code; long names) into a destination that fails after k bytes (every k for small dumps; first/last 300, buffer boundaries +-3 and every 61st for large ones; with and without a partial last write) must return an error.",
		Subs:           []*fw.Sub{subC09, subC09Fault},
		BudgetQuick:    170,
		BudgetThorough: 1500,
		Assumptions:    []string{"float constants limited to the boundary bit patterns of the corpus; sizes below 2^24"},
		Run: func(c *fw.Ctx) {
			// Dump against a destination that fails after k bytes: small programs, long string constants, long code
			for i, src := range []string{"print 1", `def b "nm" { x = 1; s = "str"; f = 2.5 }` + "\nbind b -> struct",
				`print "` + strings.Repeat("s", 5000) + `"`, `print "` + strings.Repeat("t", 9000) + `"; print "` + strings.Repeat("u", 20000) + `"`,
				strings.Repeat("print 1 + 2 * 3\n", 700), strings.Repeat("print 1 + 2 * 3\n", 3000), strings.Repeat("def b { x = 1 }\n\n", 2500),
				`def ` + strings.Repeat("n", 9000) + ` "` + strings.Repeat("m", 4090) + `" { x = 1 }`} {
				c.Do(subC09Fault, &c09Fault{Name: fmt.Sprintf("fault-%d", i), Src: src})
			}
			cutsFor := func(src string) int {
				d, ok := dumpOf(src)
				if !ok {
					return 0
				}
				n := len(d)
				two := 150
				if c.Thorough() {
					two = 900
				}
				switch {
				case n <= 48 || (c.Thorough() && n <= 110):
					return 3
				case n <= two:
					return 2
				case n <= 6000:
					return 1
				}
				return 0
			}
			for i, s := range gen.Core() {
				name := fmt.Sprintf("K%d", i)
				if !c.Mine(name) {
					continue
				}
				c.Do(subC09, &c09Case{Name: name, Src: s, PName: "input", Cuts: cutsFor(s)})
				if c.Expired() {
					return
				}
			}
			floats := []string{"0.0", "5e-324", "2.2250738585072014e-308", "1.0", "1e21", "1.7976931348623157e308", "0.1", "2.5e-7", "123456789.125"}
			for _, f := range floats {
				src := "def a { f = " + f + "; g = 0 - " + f + " }; print " + f
				c.Do(subC09, &c09Case{Name: "float:" + f, Src: src, PName: "input", Cuts: 1})
			}
			for _, n := range []int{0 - 1, 1, 2, 240, 241, 242, 0 - 9223372036854775807, 9223372036854775807, 67823, 67824, 16777215, 16777216, 4294967295, 4294967296} {
				src := fmt.Sprintf("var a = %d; print a; def b { x = a }", n)
				if n < 0 {
					src = fmt.Sprintf("var a = 0 - %d; print a; def b { x = a; y = a - 1 }", -n)
				}
				c.Do(subC09, &c09Case{Name: fmt.Sprintf("int:%d", n), Src: src, PName: "input", Cuts: 1})
			}
			for _, s := range gen.ScaledFamilies(true) {
				cuts := 0
				if len(s.Src) < 3000 {
					cuts = 1
				}
				c.Do(subC09, &c09Case{Name: "S:" + s.Name, Src: s.Src, PName: "input", Cuts: cuts})
				if c.Expired() {
					return
				}
			}
			// string constants beyond one mebibyte (a loader reading in 1 MiB pieces)
			for _, L := range []int{1048575, 1048576, 1048577, 1600000, 2097152, 2097153} {
				c.Do(subC09, &c09Case{Name: fmt.Sprintf("megastring-%d", L), Src: `var s = "` + strings.Repeat("m", L) + `"` + "\nprint 1\ndef b { f = \"tail\" }", PName: "input", Cuts: 0})
			}
			if c.Thorough() {
				// every program of the C01-C04 enumerations, under the fixed-size deliveries
				enumAllPrograms(c, func(src, shard string) bool {
					c.Do(subC09, &c09Case{Name: "E:" + src, Src: src, PName: "input", Cuts: 0})
					return !c.Expired()
				})
			}
			for i, pn := range []string{"%", "100%.bcl", "%s%d%v", "conf/my%20service.bcl", "a\x00b", "é€", "line1\nline2", "\xff\xfe", "== x ==", " ", "%!(NOVERB)"} {
				c.Do(subC09, &c09Case{Name: fmt.Sprintf("pname-special-%d", i), Src: `var a=1; def b "nm" { x = a+2.5; print "s"+x } bind b->struct`, PName: pn, Cuts: 1})
			}
			for _, L := range []int{0, 1, 93, 94, 95, 239, 240, 241, 242, 2287, 2288, 4092, 4093, 4094, 4095, 4096, 4097, 8192, 67823, 67824} {
				c.Do(subC09, &c09Case{Name: fmt.Sprintf("pname-%d", L), Src: `var a=1; def b "nm" { x = a+2.5; print "s"+x } bind b->struct`, PName: strings.Repeat("n", L), Cuts: 1})
			}
			// the sizes in between the boundaries: every length / count up to a bound
			for _, s := range gen.DenseFamilies(c.Thorough()) {
				c.Do(subC09, &c09Case{Name: "D:" + s.Name, Src: s.Src, PName: "input", Cuts: 0})
				if c.Expired() {
					return
				}
			}
		},
		Finish: func(m *fw.Merged) []string {
			var v []string
			if m.Outcomes["roundtrip-ok"] < 100 {
				v = append(v, "vacuous: fewer than 100 programs round-tripped")
			}
			m.Extra["loads"] = m.Counters["loads"]
			return v
		},
	})
}
