package checks

import (
	"bytes"
	"fmt"
	"strings"

	"verif/mc/fw"
	"verif/mc/gen"
	"verif/mc/impl"
)

// C07 — streaming parse does not depend on how the input is chunked.

type c07Case struct {
	Src  string `json:"src"`
	Mode string `json:"mode"` // all | cuts:<k> | pages
}

func (c *c07Case) Key() string { return c.Mode + "|" + c.Src }

type parseObs struct {
	errs bool
	dump []byte
	log  string
}

func obsWhole(src string) parseObs {
	p := impl.Parse(src)
	o := parseObs{errs: p.Err != nil, log: p.Log}
	if p.Err == nil {
		o.dump, _ = impl.Dump(p.Prog)
	}
	return o
}

func obsFile(src string, script []impl.Answer) (parseObs, *impl.ScriptFile) {
	f := impl.NewScriptFile(src, script)
	p := impl.ParseFile(f)
	o := parseObs{errs: p.Err != nil, log: p.Log}
	if p.Err == nil {
		o.dump, _ = impl.Dump(p.Prog)
	}
	return o, f
}

func diffObs(want, got parseObs) string {
	switch {
	case want.errs != got.errs:
		return fmt.Sprintf("Parse fails=%v (log %q), ParseFile fails=%v (log %q)", want.errs, want.log, got.errs, got.log)
	case want.log != got.log:
		return fmt.Sprintf("diagnostics differ: Parse %q, ParseFile %q", want.log, got.log)
	case !bytes.Equal(want.dump, got.dump):
		return fmt.Sprintf("compiled programs differ (dump %d vs %d bytes)", len(want.dump), len(got.dump))
	}
	return ""
}

func scriptOf(sizes []int) []impl.Answer {
	s := make([]impl.Answer, len(sizes))
	for i, n := range sizes {
		s[i] = impl.Answer{N: n}
	}
	return s
}

func c07Exec(cs fw.Case) *fw.Fail {
	c := cs.(*c07Case)
	return fw.Guard(func() *fw.Fail {
		src := c.Src
		n := len(src)
		const exp = "ParseFile under this partition = Parse of the whole input (same success, byte-identical dump, same diagnostics)"
		if c.Mode == "fixed" || c.Mode == "bigpages" {
			// larger inputs (many lines, several pages): fixed read sizes
			want := obsWhole(src)
			ks := []int{1, 7, 64, 100, 1000, 4095, 4096, 4097}
			if c.Mode == "bigpages" {
				// inputs of more than a mebibyte: page-sized and larger reads only
				ks = []int{4096, 4097, 65536, 1 << 20}
			}
			for _, k := range ks {
				var sizes []int
				for i := 0; i < n; i += k {
					sizes = append(sizes, k)
				}
				for _, eof := range []bool{false, true} {
					sc := scriptOf(sizes)
					if eof && len(sc) > 0 {
						sc[len(sc)-1].Err = "EOF"
					}
					fw.Tally("partitions", 1)
					got, _ := obsFile(src, sc)
					if d := diffObs(want, got); d != "" {
						return fw.Failf(exp, "reads of %d bytes (last with EOF: %v): %s", k, eof, d)
					}
				}
			}
			fw.TallyNontrivial()
			return nil
		}
		if c.Mode == "zeros" {
			// many zero-byte reads scattered over the whole input (each must be ignored, however many there are)
			want := obsWhole(src)
			for _, burst := range []int{1, 2, 5} {
				for _, step := range []int{1, 3} {
					var sc []impl.Answer
					for i := 0; i < n; i += step {
						for b := 0; b < burst; b++ {
							sc = append(sc, impl.Answer{N: 0})
						}
						sc = append(sc, impl.Answer{N: step})
					}
					for b := 0; b < burst; b++ {
						sc = append(sc, impl.Answer{N: 0})
					}
					fw.Tally("partitions", 1)
					got, _ := obsFile(src, sc)
					if d := diffObs(want, got); d != "" {
						return fw.Failf(exp, "%d-byte reads, each preceded by %d zero-byte reads (%d zero-byte reads in all): %s", step, burst, (n/step+2)*burst, d)
					}
				}
			}
			fw.TallyNontrivial()
			return nil
		}
		if c.Mode == "pages" {
			// the real 4096-byte pages at every alignment: padding of 4096-k bytes in front
			for k := 0; k <= n; k++ {
				for _, pad := range []string{strings.Repeat(" ", 4096-k), "#" + strings.Repeat("c", 4096-k-2) + "\n"} {
					if len(pad) != 4096-k {
						continue
					}
					full := pad + src
					want := obsWhole(full)
					got, _ := obsFile(full, nil) // default script: as much as the buffer takes
					// ScriptFile default delivers everything that fits into the 4096-byte buffer
					fw.Tally("partitions", 1)
					if d := diffObs(want, got); d != "" {
						return fw.Failf(exp, "page boundary %d bytes into the input (padding %d): %s", k, len(pad), d)
					}
				}
			}
			fw.TallyNontrivial()
			return nil
		}
		want := obsWhole(src)
		try := func(sizes []int) *fw.Fail {
			fw.Tally("partitions", 1)
			got, _ := obsFile(src, scriptOf(sizes))
			if d := diffObs(want, got); d != "" {
				return fw.Failf(exp, "reads %v: %s", sizes, d)
			}
			// the same partition with the last piece delivered together with io.EOF
			if len(sizes) > 0 {
				sc := scriptOf(sizes)
				sc[len(sc)-1].Err = "EOF"
				fw.Tally("partitions", 1)
				got, _ := obsFile(src, sc)
				if d := diffObs(want, got); d != "" {
					return fw.Failf(exp, "reads %v with the last one returning its data together with EOF: %s", sizes, d)
				}
			}
			return nil
		}
		if c.Mode == "all" {
			if n == 0 {
				return try(nil)
			}
			for mask := 0; mask < 1<<(n-1); mask++ {
				var sizes []int
				last := 0
				for i := 1; i < n; i++ {
					if mask&(1<<(i-1)) != 0 {
						sizes = append(sizes, i-last)
						last = i
					}
				}
				sizes = append(sizes, n-last)
				if f := try(sizes); f != nil {
					return f
				}
			}
			// zero-byte reads at every position of the 1-cut partitions
			for a := 0; a <= n; a++ {
				var sizes []int
				if a > 0 {
					sizes = append(sizes, a)
				}
				sizes = append(sizes, 0)
				if n-a > 0 {
					sizes = append(sizes, n-a)
				}
				if f := try(sizes); f != nil {
					return f
				}
				if f := try(append([]int{0, 0}, sizes...)); f != nil {
					return f
				}
			}
			fw.TallyNontrivial()
			return nil
		}
		var k int
		fmt.Sscanf(c.Mode, "cuts:%d", &k)
		// all partitions with <=k cut points, each also with an empty read at one cut
		var rec func(start, left int, sizes []int) *fw.Fail
		rec = func(start, left int, sizes []int) *fw.Fail {
			full := append(append([]int{}, sizes...), n-start)
			if f := try(full); f != nil {
				return f
			}
			if len(sizes) > 0 {
				// empty read inserted before the last piece
				z := append(append([]int{}, sizes...), 0, n-start)
				if f := try(z); f != nil {
					return f
				}
			}
			if left == 0 {
				return nil
			}
			for cut := start + 1; cut < n; cut++ {
				if f := rec(cut, left-1, append(sizes, cut-start)); f != nil {
					return f
				}
			}
			return nil
		}
		if f := rec(0, k, nil); f != nil {
			return f
		}
		fw.TallyNontrivial()
		return nil
	})
}

var subC07 = &fw.Sub{Name: "c07.partitions", New: func() fw.Case { return &c07Case{} }, Exec: c07Exec}

// c07Tokens: one spelling per token kind, two-character operators, escapes, comments,
// line ends, multi-byte characters in strings / comments / as whitespace, and every lexical failure kind.
var c07Tokens = []string{"var", "x1", "_", "12", "0x1F", "08", "2.5e+3", "1.5", `"a\"b"`, `"é"`, `"é\t"`, "==", "!=", "<=", ">=", "->", "=", "<", "-", "{", "}", "(", ")", ";", ":",
	"#cé\n", "# \"x\r\n", "\r\n", "\n", "\u0085", " ", " ", "\t",
	"\u010a", "\u0120", "\u0185", "\u4e0a", "\u20ac", "\U0001F600", "\ufeff", "\ufffd", "\u2028", "\"\u20ac\U0001F600\"", "#\u20ac\n",
	"@", "!", `"abc`, "\"ab\ncd\"", "1.", "1e", "1e+", "1a", "0x1g", `a"`, `"a"b`, "é", "\xC2", "\xff", `"\`,
	// the Latin-1 bytes of the two non-ASCII separators (not UTF-8: U+FFFD, wherever a read ends)
	"\x85", "\xa0"}

func init() {
	fw.Register(&fw.Check{
		ID:    "C07",
		Level: "model_checking",
		Rule: "inputs: the hand-written corpus programs up to 60 bytes, every token kind alone and every ordered pair of 54 token/separator/failure spellings (two-character operators, escapes, comments, CR LF, 2-, 3- and 4-byte characters in strings, in comments and bare, U+0085/U+00A0 as whitespace, every lexical failure kind), bare and after `print `. " +
			"For each input EVERY partition into reads is enumerated: all 2^(n-1) compositions for n<=13 (thorough 16) plus zero-byte reads at every cut, every partition also with its last piece delivered together with io.EOF; all partitions with <=2 (thorough 3) cut points for longer inputs, each also with a zero-byte read; hundreds of zero-byte reads scattered over inputs of 100-600 bytes; long inputs (65 to 2288 lines, several pages, errors on late lines) under 8 fixed read sizes; single lexical items of more than a mebibyte (string, comment, blanks, line ends, identifier) in page-sized reads; and the real 4096-byte pages with the page boundary at every offset 0..n of the input (two kinds of padding). " +
			"Oracle: ParseFile(scripted reader) = Parse(whole): same success, byte-identical dump, identical diagnostics. counters.partitions counts ParseFile executions.",
		Subs:           []*fw.Sub{subC07},
		BudgetQuick:    100,
		BudgetThorough: 1500,
		Assumptions:    []string{"goroutine schedules are free-running here; schedule-independence of the outcome is established under the controlled scheduler in C11/C16"},
		Run: func(c *fw.Ctx) {
			maxAll := 13
			cuts := 2
			if c.Thorough() {
				maxAll, cuts = 16, 3
			}
			seen := map[string]bool{}
			add := func(src string) bool {
				if seen[src] {
					return true
				}
				seen[src] = true
				if len(src) <= maxAll {
					c.Do(subC07, &c07Case{Src: src, Mode: "all"})
				} else if len(src) <= 36 && c.Thorough() {
					c.Do(subC07, &c07Case{Src: src, Mode: "cuts:4"})
				} else if len(src) <= 70 {
					c.Do(subC07, &c07Case{Src: src, Mode: fmt.Sprintf("cuts:%d", cuts)})
				} else if len(src) <= 400 {
					c.Do(subC07, &c07Case{Src: src, Mode: "cuts:1"})
				}
				if len(src) <= 40 {
					c.Do(subC07, &c07Case{Src: src, Mode: "pages"})
				}
				return !c.Expired()
			}
			for _, s := range gen.Small() {
				if !add(s) {
					return
				}
				if len(s) >= 100 && len(s) <= 600 {
					c.Do(subC07, &c07Case{Src: s, Mode: "zeros"})
				}
			}
			c.Do(subC07, &c07Case{Src: strings.Repeat("print 1 + 2 # c\n", 40) + "print )\n", Mode: "zeros"})
			// long inputs: more than 64 / 240 / 2288 lines, several 4096-byte pages, errors on late lines
			for _, sc := range gen.ScaledFamilies(false) {
				if strings.HasPrefix(sc.Name, "lines-") || strings.HasPrefix(sc.Name, "pad") || strings.HasPrefix(sc.Name, "manyblocks-top") || strings.HasPrefix(sc.Name, "vars-1023") {
					c.Do(subC07, &c07Case{Src: sc.Src, Mode: "fixed"})
					c.Do(subC07, &c07Case{Src: sc.Src + "print )\nvar\n", Mode: "fixed"})
				}
			}
			// a single lexical item longer than a mebibyte (string literal, comment, run of blanks, run of line ends)
			for _, item := range []string{`"` + strings.Repeat("s", 1200000) + `"`, "#" + strings.Repeat("c", 1200000) + "\n", strings.Repeat(" ", 1200000), strings.Repeat("\n", 1100000), strings.Repeat("i", 1100000)} {
				c.Do(subC07, &c07Case{Src: "print 1\nprint " + item + " print 2\nprint )", Mode: "bigpages"})
			}
			// inputs beyond 16 MiB (thorough: 64 MiB), mostly comment lines: the same program as from memory
			for _, mib := range []int{17, 33, 65} {
				if mib > 33 && !c.Thorough() {
					continue
				}
				line := "# " + strings.Repeat("c", 97) + "\n"
				c.Do(subC07, &c07Case{Src: "print 1\n" + strings.Repeat(line, mib*(1<<20)/len(line)) + "def b { x = 1 }\nprint )", Mode: "bigpages"})
			}
			// SEVERAL lexical items that each span two or more pages, of every kind, one after the other (what an earlier long
			// item left behind in the lexer meets the next one), and numbers / names / strings cut by a page boundary mid-way
			for _, n := range []int{4090, 4100, 8200, 9000, 13000} {
				long := []string{`"` + strings.Repeat("s", n) + `"`, strings.Repeat("i", n), "#" + strings.Repeat("c", n) + "\n", `"` + strings.Repeat("t", n+7) + `"`, strings.Repeat("j", n+3)}
				for i, a := range long {
					for j, b := range long {
						if (i+j)%2 == 0 || n == 9000 {
							c.Do(subC07, &c07Case{Src: "def b {\n x = " + a + "\n y = " + b + "\n z = x == y\n}\nprint " + a + " == " + b + "\nprint )", Mode: "fixed"})
						}
					}
				}
			}
			for off := 4080; off <= 4100; off++ {
				pad := "#" + strings.Repeat("p", off-2) + "\n"
				c.Do(subC07, &c07Case{Src: pad + "def b { limit = 250000; f = 12345.5; g = 0x1fffff; h = 1e10; name_of_it = \"string value\" }\nprint 1234567 + 7654321", Mode: "fixed"})
			}
			for _, k := range []int{30, 64, 65, 66, 100, 200, 700} {
				c.Do(subC07, &c07Case{Src: strings.Repeat("print 1 +\n", k) + "2\nprint )\n\nprint (\n", Mode: "fixed"})
			}
			for _, a := range c07Tokens {
				add(a)
				add("print " + a)
				for _, b := range c07Tokens {
					if !add(a+b) || !add(a+" "+b) || !add("print "+a+b) {
						c.Cap("deadline during token pairs")
						return
					}
				}
			}
			c.Bound("all_compositions_up_to_bytes", maxAll)
			c.Bound("cut_points_for_longer_inputs", cuts)
		},
		Finish: func(m *fw.Merged) []string {
			var v []string
			if m.Counters["partitions"] < 100000 {
				v = append(v, fmt.Sprintf("vacuous: only %d partitions", m.Counters["partitions"]))
			}
			m.Extra["partitions"] = m.Counters["partitions"]
			return v
		},
	})
}
