package checks

import (
	"testing"

	"verif/mc/fw"
	"verif/mc/gen"
)

// Smoke: reference vs implementation on the core corpus (development aid).
func TestSmokeCore(t *testing.T) {
	classes := map[string]int{}
	bad := 0
	for _, src := range gen.Core() {
		var f *fw.Fail
		var info cmpInfo
		f = fw.Guard(func() *fw.Fail { ff, i := compareRun(src); info = i; return ff })
		classes[info.Class]++
		if f != nil {
			bad++
			if bad < 40 {
				t.Errorf("%q\n   expected %s\n   observed %s", src, f.Expected, f.Observed)
			}
		}
	}
	t.Logf("classes: %v bad=%d of %d", classes, bad, len(gen.Core()))
}
