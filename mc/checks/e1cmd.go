package checks

import (
	"encoding/json"
	"fmt"
	"os"
	"path/filepath"

	"verif/mc/fw"
	"verif/mc/instr"
)

// `bclmc instrument [memory] [tokbuf=N]` writes the overlay for the controlled-scheduler build.
func init() {
	fw.Commands["instrument"] = func(args []string) int {
		opt := instr.Options{RepoDir: fw.RepoDir(), OutDir: filepath.Join(fw.WorkDir(), "overlay"), Memory: true, Knobs: []string{"tokensBufSize"}}
		for _, a := range args {
			if a == "nomemory" {
				opt.Memory = false
			}
		}
		os.RemoveAll(opt.OutDir)
		path, st, err := instr.Rewrite(opt)
		if err != nil {
			fmt.Fprintln(os.Stderr, "INFRA: instrumenter:", err)
			return 2
		}
		b, _ := json.Marshal(st)
		os.WriteFile(filepath.Join(opt.OutDir, "stats.json"), b, 0o644)
		fmt.Println(path)
		fmt.Fprintln(os.Stderr, "instrumented:", string(b))
		return 0
	}
}
