package checks

import (
	"bytes"
	"fmt"
	"regexp"
	"strconv"
	"strings"

	"github.com/wkhere/bcl"

	"verif/mc/bc"
	"verif/mc/fw"
	"verif/mc/gen"
	"verif/mc/impl"
)

// C19 — introspection options only observe.

var (
	reHeader = regexp.MustCompile(`^== .* ==$`)
	reInstr  = regexp.MustCompile(`^(\d{4,}) (?:     \|  | *\d+:\d+  )([A-Z]+)\b.*$`)
	reStack  = regexp.MustCompile(`^             \d+: (\[ .* \])*$`)
	reStats  = regexp.MustCompile(`^[px]stats\.\w+: *\d+$`)
)

type c19Run struct {
	out, log, err string
	blocks        string
	binding       string
	panicked      string
}

// runWith executes src through one API path with the given options.
func runWith(src string, path int, disasm, trace, stats bool) (r c19Run) {
	defer func() {
		if x := recover(); x != nil {
			r.panicked = fmt.Sprint(x)
		}
	}()
	var out, log bytes.Buffer
	opts := []bcl.Option{bcl.OptOutput(&out), bcl.OptLogger(&log), bcl.OptDisasm(disasm), bcl.OptTrace(trace), bcl.OptStats(stats)}
	var bl []bcl.Block
	var bi bcl.Binding
	var err error
	switch path {
	case 0:
		bl, bi, err = bcl.Interpret([]byte(src), opts...)
	case 1:
		var p *bcl.Prog
		p, err = bcl.Parse([]byte(src), "input", opts...)
		if err == nil {
			bl, bi, err = bcl.Execute(p, opts...)
		}
	case 3:
		n := len(src)
		bl, bi, err = bcl.InterpretFile(impl.NewScriptFile(src, impl.Chunks(n/2)), opts...)
	case 2:
		var p *bcl.Prog
		p, err = bcl.Parse([]byte(src), "input", bcl.OptOutput(&bytes.Buffer{}), bcl.OptLogger(&log))
		if err == nil {
			var d bytes.Buffer
			if derr := p.Dump(&d); derr != nil {
				r.panicked = "dump: " + derr.Error()
				return
			}
			p, err = bcl.LoadProg(&d, "input", opts...)
			if err == nil {
				bl, bi, err = bcl.Execute(p, opts...)
			}
		}
	}
	r.out, r.log = out.String(), log.String()
	if err != nil {
		r.err = err.Error()
	}
	r.blocks, r.binding = impl.BlocksStr(bl), impl.BindingStr(bi)
	return r
}

// classify splits an output into program lines and introspection lines.
func stripIntrospection(out string) (program string, instrOffsets []int, nStack, nStats, nHeader int) {
	lines := strings.SplitAfter(out, "\n")
	var sb strings.Builder
	for _, l := range lines {
		t := strings.TrimSuffix(l, "\n")
		switch {
		case l == "":
		case reHeader.MatchString(t):
			nHeader++
		case reStack.MatchString(t):
			nStack++
		case reStats.MatchString(t):
			nStats++
		case reInstr.MatchString(t):
			m := reInstr.FindStringSubmatch(t)
			off, _ := strconv.Atoi(m[1])
			instrOffsets = append(instrOffsets, off)
		default:
			sb.WriteString(l)
		}
	}
	return sb.String(), instrOffsets, nStack, nStats, nHeader
}

func c19Exec(cs fw.Case) *fw.Fail {
	c := cs.(*progCase)
	if excluded(c.Src) {
		return nil
	}
	src := c.Src
	// a string constant holding a newline makes its listing line span two lines; the line
	// grammar cannot classify those, so only results (not output text) are compared then
	multiline := false
	if dp0, _, _, st0 := compileDecode(src); st0 == "" {
		for _, k := range dp0.Consts {
			if s, ok := k.(string); ok && strings.Contains(s, "\n") {
				multiline = true
			}
		}
	}
	for path := 0; path < 4; path++ {
		base := runWith(src, path, false, false, false)
		if base.panicked != "" {
			fw.TallyOutcome("base-run-panics") // C06's business
			return nil
		}
		if strings.Contains(base.out, "stats.") || reInstr.MatchString(base.out) {
			fw.TallyOutcome("program-output-looks-like-listing")
			return nil
		}
		for mask := 1; mask < 8; mask++ {
			d, t, s := mask&1 != 0, mask&2 != 0, mask&4 != 0
			r := runWith(src, path, d, t, s)
			what := fmt.Sprintf("path %d disasm=%v trace=%v stats=%v", path, d, t, s)
			if r.panicked != "" {
				return fw.Failf("options never make a call panic ("+what+")", "panic: %s", r.panicked)
			}
			if r.err != base.err || r.log != base.log || r.blocks != base.blocks || r.binding != base.binding {
				return fw.Failf(fmt.Sprintf("same blocks, binding, error and diagnostics as without options (%s): err=%q log=%q blocks=%s binding=%s", what, base.err, base.log, base.blocks, base.binding),
					"err=%q log=%q blocks=%s binding=%s", r.err, r.log, r.blocks, r.binding)
			}
			prog, _, _, _, _ := stripIntrospection(r.out)
			if multiline {
				prog = base.out
			}
			if prog != base.out {
				return fw.Failf(fmt.Sprintf("program lines unchanged (%s): %q", what, base.out), "after removing listing/trace/statistics lines: %q (full output %q)", prog, fw.Trunc(r.out, 500))
			}
			fw.Tally("option_runs", 1)
		}
	}
	// options must not leave anything behind in the Prog: executing with options and then again
	// without them gives the option-free output the second time
	for mask := 1; mask < 8; mask++ {
		d, t, s := mask&1 != 0, mask&2 != 0, mask&4 != 0
		var fail *fw.Fail
		func() {
			defer func() {
				if x := recover(); x != nil {
					fail = fw.Failf("options never make a call panic", "second execution after options panics: %v", x)
				}
			}()
			var out, log bytes.Buffer
			p, err := bcl.Parse([]byte(src), "input", bcl.OptOutput(&out), bcl.OptLogger(&log))
			if err != nil {
				return
			}
			bcl.Execute(p, bcl.OptDisasm(d), bcl.OptTrace(t), bcl.OptStats(s))
			out.Reset()
			log.Reset()
			bl, bi, xerr := bcl.Execute(p)
			again := c19Run{out: out.String(), log: log.String(), blocks: impl.BlocksStr(bl), binding: impl.BindingStr(bi)}
			if xerr != nil {
				again.err = xerr.Error()
			}
			base := runWith(src, 1, false, false, false)
			wantLog := ""
			if i := strings.Index(base.log, "WARNING"); i >= 0 {
				wantLog = base.log[i:]
			}
			if again.out != base.out || again.err != base.err || again.blocks != base.blocks || again.binding != base.binding || again.log != wantLog {
				fail = fw.Failf(fmt.Sprintf("an option-free execution after one with options (disasm=%v trace=%v stats=%v) behaves like the first: out=%q err=%q", d, t, s, base.out, base.err),
					"out=%q err=%q log=%q blocks=%s", again.out, again.err, again.log, again.blocks)
			}
			fw.Tally("option_runs", 1)
		}()
		if fail != nil {
			return fail
		}
	}
	// the two-step API with different writers: the program's own lines stay with the writer given when the
	// Prog was made; the writer given to Execute receives introspection lines only
	for mask := 1; mask < 8; mask++ {
		d, t, s := mask&1 != 0, mask&2 != 0, mask&4 != 0
		for _, loaded := range []bool{false, true} {
			var fail *fw.Fail
			func() {
				defer func() {
					if x := recover(); x != nil {
						fail = fw.Failf("options never make a call panic", "Execute with its own writer panics: %v", x)
					}
				}()
				var outA, logA, outB bytes.Buffer
				p, err := bcl.Parse([]byte(src), "input", bcl.OptOutput(&outA), bcl.OptLogger(&logA))
				if err != nil {
					return
				}
				if loaded {
					var dmp bytes.Buffer
					if p.Dump(&dmp) != nil {
						return
					}
					if p, err = bcl.LoadProg(&dmp, "input", bcl.OptOutput(&outA), bcl.OptLogger(&logA)); err != nil {
						return
					}
				}
				bcl.Execute(p, bcl.OptDisasm(d), bcl.OptTrace(t), bcl.OptStats(s), bcl.OptOutput(&outB))
				base := runWith(src, 1, false, false, false)
				// (which of the two writers receives the trace is not specified; the program's own lines belong to A)
				progA, _, _, _, _ := stripIntrospection(outA.String())
				progB, _, _, _, _ := stripIntrospection(outB.String())
				if !multiline && (progA != base.out || progB != "") {
					fail = fw.Failf(fmt.Sprintf("with Execute(disasm=%v trace=%v stats=%v, OptOutput(B)) on a Prog made with OptOutput(A) (loaded=%v): the program's lines %q reach A, B holds listing/trace/statistics lines only", d, t, s, loaded, base.out),
						"program lines in A: %q; in B: %q", fw.Trunc(progA, 300), fw.Trunc(progB, 300))
				}
				fw.Tally("option_runs", 1)
			}()
			if fail != nil {
				return fail
			}
		}
	}
	// a Prog that has been listed and traced once is re-used for another program (exported Load): its trace is the
	// trace of a Prog freshly loaded from the same dump
	if d0, ok := dumpOf(src); ok {
		var fail *fw.Fail
		func() {
			defer func() {
				if x := recover(); x != nil {
					fail = fw.Failf("options never make a call panic", "trace after Load into a Prog that was listed before panics: %v", x)
				}
			}()
			var outU, outF, outT1, outT2 bytes.Buffer
			used, err := bcl.Parse([]byte("print \"other\" + 1\ndef zz \"n\" { q = 2.5; r = \"rr\" + q }\nbind zz -> struct"), "input", bcl.OptOutput(&outU), bcl.OptLogger(&bytes.Buffer{}), bcl.OptDisasm(true))
			if err != nil {
				return
			}
			bcl.Execute(used, bcl.OptTrace(true), bcl.OptOutput(&outT1))
			if used.Load(bytes.NewReader(d0)) != nil {
				return
			}
			fresh, ferr := bcl.LoadProg(bytes.NewReader(d0), "input", bcl.OptOutput(&outF), bcl.OptLogger(&bytes.Buffer{}))
			if ferr != nil {
				return
			}
			outU.Reset()
			outT1.Reset()
			bl1, bi1, e1 := bcl.Execute(used, bcl.OptTrace(true), bcl.OptOutput(&outT1))
			bl2, bi2, e2 := bcl.Execute(fresh, bcl.OptTrace(true), bcl.OptOutput(&outT2))
			a := fmt.Sprintf("out=%q trace=%q err=%v blocks=%s binding=%s", outU.String(), outT1.String(), e1, impl.BlocksStr(bl1), impl.BindingStr(bi1))
			b := fmt.Sprintf("out=%q trace=%q err=%v blocks=%s binding=%s", outF.String(), outT2.String(), e2, impl.BlocksStr(bl2), impl.BindingStr(bi2))
			if a != b {
				fail = fw.Failf("traced run of a dump loaded into a previously listed Prog = traced run of the same dump loaded freshly: "+fw.Trunc(b, 400), "%s", fw.Trunc(a, 400))
			}
		}()
		if fail != nil {
			return fail
		}
		// an output writer that fails after a few bytes: with and without trace the run gives the same blocks, binding and error
		for _, room := range []int{0, 7, 60} {
			w1, w2 := &limitedWriter{room: room}, &limitedWriter{room: room}
			p1, e1 := bcl.Parse([]byte(src), "input", bcl.OptOutput(w1), bcl.OptLogger(&bytes.Buffer{}))
			p2, e2 := bcl.Parse([]byte(src), "input", bcl.OptOutput(w2), bcl.OptLogger(&bytes.Buffer{}))
			if e1 != nil || e2 != nil {
				break
			}
			var fail *fw.Fail
			func() {
				defer func() {
					if x := recover(); x != nil {
						fail = fw.Failf("options never make a call panic", "a failing output writer: %v", x)
					}
				}()
				bl1, bi1, x1 := bcl.Execute(p1, bcl.OptOutput(&limitedWriter{room: room}))
				bl2, bi2, x2 := bcl.Execute(p2, bcl.OptTrace(true), bcl.OptStats(true), bcl.OptOutput(&limitedWriter{room: room}))
				a := fmt.Sprintf("err=%v blocks=%s binding=%s", x1, impl.BlocksStr(bl1), impl.BindingStr(bi1))
				b := fmt.Sprintf("err=%v blocks=%s binding=%s", x2, impl.BlocksStr(bl2), impl.BindingStr(bi2))
				if a != b {
					fail = fw.Failf(fmt.Sprintf("with an output writer that fails after %d bytes, trace and statistics do not change error, blocks or binding: %s", room, fw.Trunc(a, 300)), "%s", fw.Trunc(b, 300))
				}
			}()
			if fail != nil {
				return fail
			}
		}
	}
	// structure of the listings, against the independent decoder and the reference VM
	dp, _, _, status := compileDecode(src)
	if status == "rejected" {
		// a rejected program is not disassembled
		r := runWith(src, 0, true, true, true)
		_, offs, nStack, _, nHeader := stripIntrospection(r.out)
		if len(offs) > 0 || nStack > 0 || nHeader > 0 {
			return fw.Failf("no listing or trace for a rejected program", "%q", fw.Trunc(r.out, 300))
		}
		fw.TallyOutcome("rejected")
		fw.TallyNontrivial()
		return nil
	}
	if status != "" {
		return nil
	}
	if multiline {
		fw.TallyOutcome("multi-line-constant")
		return nil
	}
	list, err := bc.Listing(dp.Code)
	if err != nil {
		return nil // C10's business
	}
	for path := 1; path < 3; path++ {
		r := runWith(src, path, true, false, false)
		_, offs, _, _, nHeader := stripIntrospection(r.out)
		var want []int
		for _, in := range list {
			want = append(want, in.Off)
		}
		if fmt.Sprint(offs) != fmt.Sprint(want) || nHeader != 1 {
			return fw.Failf(fmt.Sprintf("disassembly lists every instruction once, in order, at its offset: %v (path %d)", want, path), "listed %v, %d header lines", offs, nHeader)
		}
	}
	rv := bc.Run(dp, 1<<22)
	if rv.Internal != "" || rv.Unspecified != "" {
		fw.TallyOutcome("unspecified")
		return nil
	}
	r := runWith(src, 1, false, true, true)
	_, offs, nStack, _, _ := stripIntrospection(r.out)
	if fmt.Sprint(offs) != fmt.Sprint(rv.Trace) {
		return fw.Failf(fmt.Sprintf("trace lists exactly the executed instructions %v", rv.Trace), "trace lists %v", offs)
	}
	if nStack != len(offs) {
		return fw.Failf("one stack line per traced instruction", "%d stack lines, %d instructions", nStack, len(offs))
	}
	ops := -1
	if m := regexp.MustCompile(`xstats\.opsRead: *(\d+)`).FindStringSubmatch(r.out); m != nil {
		ops, _ = strconv.Atoi(m[1])
	}
	if ops != len(offs) {
		return fw.Failf(fmt.Sprintf("statistics report as many instructions as the trace lists (%d)", len(offs)), "xstats.opsRead=%d", ops)
	}
	if rv.ErrClass != "" {
		fw.TallyOutcome("runtime-error")
	} else {
		fw.TallyOutcome("ok")
	}
	fw.TallyNontrivial()
	return nil
}

var subC19 = &fw.Sub{Name: "c19.options", New: func() fw.Case { return &progCase{} }, Exec: func(cs fw.Case) *fw.Fail {
	return fw.Guard(func() *fw.Fail { return c19Exec(cs) })
}}

func init() {
	fw.Register(&fw.Check{
		ID:    "C19",
		Level: "model_checking",
		Rule: "for every program of the core corpus K (accepted, rejected, failing at run time), the statement sequences of C04 and (thorough) C02/C03 up to their quick bounds: all 8 combinations of the disassembly/trace/statistics options x 4 API paths (Interpret; Parse+Execute; Parse, Dump, LoadProg+Execute; InterpretFile in two chunks). " +
			"Oracle: blocks, binding, error text and diagnostics identical to the option-free run; no panic; after deleting the lines a strict grammar recognises as header / disassembly / stack / statistics lines the output equals the option-free output; " +
			"the disassembly lists exactly the independent decoder's instruction starts once each in order; the trace's instruction offsets equal the reference VM's executed pc sequence, one stack line each, and their number equals xstats.opsRead.",
		Subs:           []*fw.Sub{subC19},
		BudgetQuick:    170,
		BudgetThorough: 1500,
		Run: func(c *fw.Ctx) {
			do := func(src, shard string) bool {
				c.Do(subC19, &progCase{Src: src, Shard: shard})
				return !c.Expired()
			}
			for _, s := range c19Corpus(c) {
				if !do(s, "") {
					return
				}
			}
			for _, s := range gen.ScaledFamilies(false) {
				if len(s.Src) < 20000 {
					do(s.Src, "")
				}
			}
			// runs of more than 2^16 instructions and code beyond 64 KiB (counters and offsets wider than 16 bits)
			do(strings.Repeat("eval 1\n", 33000)+"print 2", "")
			do("def b {\n"+strings.Repeat("x = 1 + 2\n", 17000)+"}\nprint 1/0", "")
			ids := []string{"C04"}
			if c.Thorough() {
				ids = []string{"C04", "C03", "C02"}
			}
			for _, id := range ids {
				sp := seqSpecs[id]
				sp.thorLen = sp.quickLen
				if c.Quick() {
					sp.quickLen--
				}
				enumSeq(sp, c, do)
			}
		},
		Finish: func(m *fw.Merged) []string {
			var v []string
			for _, o := range []string{"ok", "runtime-error", "rejected"} {
				if m.Outcomes[o] == 0 {
					v = append(v, "vacuous: outcome class never observed: "+o)
				}
			}
			m.Extra["option_runs"] = m.Counters["option_runs"]
			return v
		},
	})
}

// c19Corpus: quick runs the base corpus (the mechanically generated name/scope families add nothing for the
// introspection options); thorough runs all of it.
func c19Corpus(c *fw.Ctx) []string {
	if c.Quick() {
		return gen.CoreBase()
	}
	return gen.Core()
}
