package checks

import (
	"bytes"
	"errors"
	"fmt"
	"io"
	"os"
	"strings"

	"github.com/wkhere/bcl"

	"verif/mc/fw"
	"verif/mc/impl"
	"verif/mc/ref"
	"verif/mc/vsched"
)

// C11 — ParseFile terminates, closes its input exactly once, leaks nothing.
// Decided under the controlled scheduler (mc/vsched) on the instrumented package:
// every schedule of caller + reader + parser + lexer goroutines up to a preemption
// bound, for every reader script of a bounded family.

type c11Case struct {
	Src        string        `json:"src"`
	Script     []impl.Answer `json:"script"`
	API        string        `json:"api"`                   // parse | interpret | unmarshal
	TokBuf     int           `json:"tokbuf"`                // 0 = as in the source
	Bound      int           `json:"bound"`                 // preemption bound; -1: all interleavings (state-key pruning)
	CloseFails bool          `json:"close_fails,omitempty"` // the input's Close returns an error
}

func (c *c11Case) Key() string {
	k := fmt.Sprintf("%q|%v|%s|%d|%d", c.Src, c.Script, c.API, c.TokBuf, c.Bound)
	if c.CloseFails {
		k += "|closefails"
	}
	return k
}

type c11Obs struct {
	returned bool
	err      error
	summary  string
	file     *impl.ScriptFile
	late     int // writes to the caller's writers made after the call had returned
}

// obsWriter is the caller's output / log writer: it notices writes that arrive after the call returned
// (a goroutine of the call that outlives it and still uses the caller's writers).
type obsWriter struct {
	o   *c11Obs
	buf bytes.Buffer
}

func (w *obsWriter) Write(p []byte) (int, error) {
	if w.o.returned {
		w.o.late++
	}
	return w.buf.Write(p)
}

type c11Target struct {
	Name string
	X    int
}

// maxExecPerCase caps the schedules explored inside one case; a capped exploration is
// reported (counter capped_explorations, exhaustive=false) and never judged a failure.
func maxExecPerCase() int {
	if fw.Cur != nil && fw.Cur.Thorough() {
		return 3000000
	}
	return 120000
}

func c11BadTarget(api string) any {
	switch api {
	case "unmarshal-val":
		return c11Target{}
	case "unmarshal-slice":
		return []c11Target{}
	}
	return nil
}

func requireInstrumented() *fw.Fail {
	if !vsched.Instrumented {
		return fw.Failf("harness built against the instrumented package (go build -overlay)", "package bcl is not instrumented: this check must be run through run.sh")
	}
	return nil
}

func c11Exec(cs fw.Case) *fw.Fail {
	c := cs.(*c11Case)
	if f := requireInstrumented(); f != nil {
		return f
	}
	vsched.SetKnob("tokensBufSize", c.TokBuf)
	defer vsched.SetKnob("tokensBufSize", 0)

	// what the script delivers
	delivered := 0
	readErr := ""
	for _, a := range c.Script {
		n := a.N
		if n > len(c.Src)-delivered {
			n = len(c.Src) - delivered
		}
		delivered += n
		if a.Err != "" {
			if a.Err != "EOF" {
				readErr = a.Err
			}
			break
		}
	}
	ended := false
	for _, a := range c.Script {
		if a.Err != "" {
			ended = true
		}
	}
	if !ended {
		delivered = len(c.Src)
	}
	data := c.Src[:delivered]
	// expected outcome when no read error: that of the in-memory API on the delivered bytes
	var want string
	if readErr == "" {
		switch c.API {
		case "parse":
			o := obsWhole(data)
			want = fmt.Sprintf("errs=%v log=%q dump=%x", o.errs, o.log, o.dump)
		case "interpret":
			want = impl.Interpret(data).Summary()
		case "unmarshal":
			var t c11Target
			var out, log bytes.Buffer
			err := bcl.Unmarshal([]byte(data), &t, bcl.OptOutput(&out), bcl.OptLogger(&log))
			want = fmt.Sprintf("err=%v target=%+v out=%q log=%q", err, t, out.String(), log.String())
		case "unmarshal-val", "unmarshal-nil", "unmarshal-slice":
			var out, log bytes.Buffer
			err := bcl.Unmarshal([]byte(data), c11BadTarget(c.API), bcl.OptOutput(&out), bcl.OptLogger(&log))
			want = fmt.Sprintf("err=%v out=%q log=%q", err, out.String(), log.String())
		}
	}
	// lexical failure: which read delivers the failing byte
	failRead := -1
	if _, lf := ref.Lex(data); lf != nil && readErr == "" {
		cum := 0
		for i, a := range c.Script {
			cum += a.N
			if cum >= lf.Off {
				failRead = i + 1
				break
			}
		}
		if failRead < 0 {
			failRead = len(c.Script) + 1
		}
	}

	var obs *c11Obs
	body := func() {
		o := &c11Obs{file: impl.NewScriptFile(c.Src, c.Script)}
		if c.CloseFails {
			o.file.CloseErr = errors.New("close failed: input/output error")
		}
		obs = o
		out, log := &obsWriter{o: o}, &obsWriter{o: o}
		switch c.API {
		case "parse":
			prog, err := bcl.ParseFile(o.file, bcl.OptOutput(out), bcl.OptLogger(log))
			o.returned = true
			o.err = err
			po := parseObs{errs: err != nil, log: log.buf.String()}
			if err == nil {
				po.dump, _ = impl.Dump(prog)
			}
			o.summary = fmt.Sprintf("errs=%v log=%q dump=%x", po.errs, po.log, po.dump)
		case "interpret":
			bl, bi, err := bcl.InterpretFile(o.file, bcl.OptOutput(out), bcl.OptLogger(log))
			o.returned = true
			o.err = err
			o.summary = impl.Ran{Blocks: bl, Binding: bi, Err: err, Out: out.buf.String(), Log: log.buf.String()}.Summary()
		case "unmarshal":
			var t c11Target
			err := bcl.UnmarshalFile(o.file, &t, bcl.OptOutput(out), bcl.OptLogger(log))
			o.returned = true
			o.err = err
			o.summary = fmt.Sprintf("err=%v target=%+v out=%q log=%q", err, t, out.buf.String(), log.buf.String())
		case "unmarshal-val", "unmarshal-nil", "unmarshal-slice":
			// a target that cannot be bound: the input is still the callee's to close
			err := bcl.UnmarshalFile(o.file, c11BadTarget(c.API), bcl.OptOutput(out), bcl.OptLogger(log))
			o.returned = true
			o.err = err
			o.summary = fmt.Sprintf("err=%v out=%q log=%q", err, out.buf.String(), log.buf.String())
		}
		o.returned = true
	}
	first := ""
	check := func(e *vsched.Exec) (string, string) {
		o := obs
		if len(e.Panics) > 0 {
			return "panic", "panic in a goroutine: " + strings.Join(e.Panics, "; ")
		}
		if !o.returned {
			return "hang", "the call never returns: " + strings.Join(e.Leaked, "; ")
		}
		if e.Deadlock {
			return "leak", "goroutines started by the call are blocked forever after it returned: " + strings.Join(e.Leaked, "; ")
		}
		if o.late > 0 {
			return "late-write", fmt.Sprintf("a goroutine started by the call outlived it: %d writes to the caller's output/log writer after the call had returned", o.late)
		}
		if o.file.Closes != 1 {
			return "close", fmt.Sprintf("Close called %d times (reads %d)", o.file.Closes, o.file.Reads)
		}
		if readErr != "" && strings.HasPrefix(c.API, "unmarshal-") {
			// which of the two errors (unusable target, read error) is reported is not specified
			if o.err == nil {
				return "readerr", "no error returned"
			}
			return "bad-target", ""
		}
		if readErr != "" {
			if o.file.ErrVal != nil {
				// the failing Read really happened
				if o.err != o.file.ErrVal {
					return "readerr", fmt.Sprintf("read error %q was delivered but the call returned %v", readErr, o.err)
				}
				return "read-error-returned", ""
			}
			// the reader was cancelled before the failing read: only an earlier parse failure can do that
			if o.err == nil {
				return "readerr", "the reader stopped before its script ended although the parse did not fail"
			}
			return "cancelled-before-read-error", ""
		}
		if failRead > 0 && o.file.Reads > failRead+3 {
			return "reads", fmt.Sprintf("lexical failure delivered by read %d, but %d reads were made", failRead, o.file.Reads)
		}
		if o.summary != want {
			return "outcome", fmt.Sprintf("outcome differs from the in-memory API on the delivered bytes:\n   file: %s\n   mem:  %s", fw.Trunc(o.summary, 400), fw.Trunc(want, 400))
		}
		if first == "" {
			first = o.summary
		}
		cls := "ok"
		if o.err != nil {
			cls = "error"
		}
		if failRead > 0 {
			cls = "lexfail"
		}
		return cls, ""
	}
	total := 0
	var steps int64
	if c.Bound < 0 {
		x := &vsched.Explorer{Unbounded: true, Body: body, Check: check, Stop: func() bool { fw.Heartbeat(); return fw.Cur != nil && fw.Cur.Expired() }, MaxExec: maxExecPerCase()}
		x.Explore()
		if x.Infra != "" {
			return fw.Failf("deterministic replay under the scheduler", "INFRA %s (schedule %v)", x.Infra, x.FailTrace)
		}
		if x.Fail != "" {
			return fw.Failf("every schedule: returns, Close once, no leak, read error preferred, few reads after a lexical failure, outcome = in-memory outcome",
				"all interleavings, schedule %v: %s", x.FailTrace, x.Fail)
		}
		if x.Capped {
			fw.Tally("capped_explorations", 1)
			if fw.Cur != nil {
				fw.Cur.Cap("schedule cap reached during an unbounded exploration")
			}
		} else {
			fw.Tally("unbounded_explorations_completed", 1)
		}
		for o := range x.Outcomes {
			fw.TallyOutcome(o)
		}
		fw.Tally("schedules", int64(x.Executions))
		fw.Tally("states", int64(x.States))
		fw.Tally("transitions", x.Steps+int64(x.Executions))
		fw.Tally("traces_validated", int64(x.Executions))
		fw.Tally("pruned_at_visited_state", int64(x.Pruned))
		fw.TallyNontrivial()
		return nil
	}
	for b := 0; b <= c.Bound; b++ {
		x := &vsched.Explorer{Bound: b, Body: body, Check: check, Stop: func() bool { fw.Heartbeat(); return fw.Cur != nil && fw.Cur.Expired() }, MaxExec: maxExecPerCase()}
		x.Explore()
		total = x.Executions
		steps = x.Steps + int64(x.Executions)
		if x.Infra != "" {
			return fw.Failf("deterministic replay under the scheduler", "INFRA %s (schedule %v)", x.Infra, x.FailTrace)
		}
		if x.Fail != "" {
			return fw.Failf("every schedule: returns, Close once, no leak, read error preferred, few reads after a lexical failure, outcome = in-memory outcome",
				"preemption bound %d, schedule %v: %s", b, x.FailTrace, x.Fail)
		}
		if x.Capped {
			fw.Tally("capped_explorations", 1)
			if fw.Cur != nil {
				fw.Cur.Cap(fmt.Sprintf("schedule cap reached at preemption bound %d for some scripts (lower bounds completed)", b))
			}
			break
		}
		if b == c.Bound {
			for o, n := range x.Outcomes {
				fw.TallyOutcome(o)
				_ = n
			}
		}
	}
	fw.Tally("schedules", int64(total))
	fw.Tally("states", int64(total))
	fw.Tally("transitions", steps)
	fw.Tally("traces_validated", int64(total))
	fw.TallyNontrivial()
	return nil
}

var subC11 = &fw.Sub{Name: "c11.sched", New: func() fw.Case { return &c11Case{} }, Exec: func(cs fw.Case) *fw.Fail {
	return fw.Guard(func() *fw.Fail { return c11Exec(cs) })
}}

// c11Scripts: reader scripts for an input: 1..3 chunks cut at the given offsets, with <=2 non-default answers.
func c11Scripts(n int, cuts []int) [][]impl.Answer {
	var out [][]impl.Answer
	var bases [][]int
	bases = append(bases, []int{n})
	for _, a := range cuts {
		if a > 0 && a < n {
			bases = append(bases, []int{a, n - a})
			for _, b := range cuts {
				if b > a && b < n {
					bases = append(bases, []int{a, b - a, n - b})
				}
			}
		}
	}
	for _, sizes := range bases {
		mk := func() []impl.Answer {
			var s []impl.Answer
			for _, k := range sizes {
				s = append(s, impl.Answer{N: k})
			}
			return s
		}
		out = append(out, mk()) // default: chunks then bare EOF
		// data together with EOF on the last chunk
		s := mk()
		s[len(s)-1].Err = "EOF"
		out = append(out, s)
		for i := 0; i <= len(sizes); i++ {
			// a zero-byte read before chunk i
			z := mk()
			z = append(z[:i], append([]impl.Answer{{N: 0}}, z[i:]...)...)
			out = append(out, z)
			// an error instead of chunk i (and after the last chunk)
			e := mk()[:i]
			e = append(e, impl.Answer{N: 0, Err: "boom"})
			out = append(out, e)
			// ... an error that wraps io.EOF / is io.ErrUnexpectedEOF (still a read error, not the end of input)
			for _, kind := range []string{"wrapeof: connection reset", "unexpected-eof", "temporary", "deadline"} {
				out = append(out, append(mk()[:i], impl.Answer{N: 0, Err: kind}))
			}
			if i < len(sizes) {
				// data together with an error
				d := mk()[:i+1]
				d[i].Err = "boom"
				out = append(out, d)
				dw := mk()[:i+1]
				dw[i].Err = "wrapeof: reset"
				out = append(out, dw)
				// zero-byte read AND a later error (2 deviations)
				if i+1 < len(sizes) {
					zz := mk()
					zz = append(zz[:i], append([]impl.Answer{{N: 0}}, zz[i:]...)...)
					zz = append(zz[:i+2], impl.Answer{N: 0, Err: "boom"})
					out = append(out, zz)
				}
			}
		}
	}
	return out
}

// c11.osfile: the three file entry points on real *os.File inputs (regular files incl. an empty one, /dev/null, a
// pipe whose writer is closed, a pipe that delivers data and then an error-free EOF). Free-running (no scheduler):
// the call must return (the 60 s watchdog of the worker catches a spin or a hang), give the in-memory outcome,
// and have closed the file.
type c11OSFile struct {
	Kind string `json:"kind"`
	Src  string `json:"src"`
	API  string `json:"api"`
}

func (c *c11OSFile) Key() string { return c.Kind + "|" + c.API + "|" + c.Src }

var subC11OSFile = &fw.Sub{Name: "c11.osfile", New: func() fw.Case { return &c11OSFile{} }, Exec: func(cs fw.Case) *fw.Fail {
	c := cs.(*c11OSFile)
	return fw.Guard(func() *fw.Fail {
		var f *os.File
		switch c.Kind {
		case "regular":
			tmp, err := os.CreateTemp(fw.WorkDir(), "c11-*.bcl")
			if err != nil {
				return fw.Failf("temp file", "%v", err)
			}
			defer os.Remove(tmp.Name())
			tmp.WriteString(c.Src)
			tmp.Close()
			f, err = os.Open(tmp.Name())
			if err != nil {
				return fw.Failf("open", "%v", err)
			}
		case "regular-offset":
			// the caller has read a header of the file already: the call processes what is left
			tmp, err := os.CreateTemp(fw.WorkDir(), "c11-*.bcl")
			if err != nil {
				return fw.Failf("temp file", "%v", err)
			}
			defer os.Remove(tmp.Name())
			header := "#!/usr/bin/env bcl )(\n\x00\x01 header the caller consumed \n"
			tmp.WriteString(header + c.Src)
			tmp.Close()
			f, err = os.Open(tmp.Name())
			if err != nil {
				return fw.Failf("open", "%v", err)
			}
			f.Seek(int64(len(header)), io.SeekStart)
		case "devnull":
			var err error
			if f, err = os.Open("/dev/null"); err != nil {
				return fw.Failf("open /dev/null", "%v", err)
			}
		case "pipe":
			r, w, err := os.Pipe()
			if err != nil {
				return fw.Failf("pipe", "%v", err)
			}
			go func() { w.WriteString(c.Src); w.Close() }()
			f = r
		}
		src := c.Src
		if c.Kind == "devnull" {
			src = ""
		}
		var got, want string
		var out, log bytes.Buffer
		switch c.API {
		case "parse":
			p, err := bcl.ParseFile(f, bcl.OptOutput(&out), bcl.OptLogger(&log))
			po := parseObs{errs: err != nil, log: strings.ReplaceAll(log.String(), f.Name(), "input")}
			if err == nil {
				po.dump, _ = impl.Dump(p)
			}
			got = fmt.Sprintf("errs=%v log=%q", po.errs, po.log)
			o := obsWhole(src)
			want = fmt.Sprintf("errs=%v log=%q", o.errs, o.log)
		case "interpret":
			bl, bi, err := bcl.InterpretFile(f, bcl.OptOutput(&out), bcl.OptLogger(&log))
			got = impl.Ran{Blocks: bl, Binding: bi, Err: err, Out: out.String(), Log: log.String()}.Summary()
			want = impl.Interpret(src).Summary()
		case "unmarshal":
			var t, t2 c11Target
			err := bcl.UnmarshalFile(f, &t, bcl.OptOutput(&out), bcl.OptLogger(&log))
			got = fmt.Sprintf("err=%v target=%+v out=%q log=%q", err, t, out.String(), log.String())
			var out2, log2 bytes.Buffer
			err2 := bcl.Unmarshal([]byte(src), &t2, bcl.OptOutput(&out2), bcl.OptLogger(&log2))
			want = fmt.Sprintf("err=%v target=%+v out=%q log=%q", err2, t2, out2.String(), log2.String())
		}
		if cerr := f.Close(); cerr == nil {
			return fw.Failf("the input file is closed by the call", "closing it afterwards succeeds: it was still open")
		}
		if got != want {
			return fw.Failf("outcome on an *os.File ("+c.Kind+") equals the in-memory outcome: "+fw.Trunc(want, 300), "%s", fw.Trunc(got, 300))
		}
		fw.TallyOutcome("osfile-" + c.Kind)
		fw.TallyNontrivial()
		return nil
	})
}}

func init() {
	fw.Register(&fw.Check{
		ID:    "C11",
		Level: "model_checking",
		Rule: "stateless model checking of the real ParseFile/InterpretFile/UnmarshalFile pipeline (package bcl rewritten at check time so that its channel operations, go statements and select go through the controlled scheduler mc/vsched): " +
			"inputs of 5 classes x 2 plus a byte order mark (alone in a read, split, with data) and 40 syntax errors followed by more input (valid; syntax error in the first / last chunk; lexical failure in the first chunk with 6 more chunks pending / in the last chunk), each under every reader script of a bounded family (1-3 chunks cut at token and mid-token offsets; <=2 non-default answers among zero-byte read, data+EOF, error, data+error; errors of five kinds: plain, wrapping io.EOF, io.ErrUnexpectedEOF, a sticky EAGAIN that calls itself temporary, os.ErrDeadlineExceeded; forty zero-byte reads in a row; UnmarshalFile also with targets that cannot be bound: a struct value, nil, a slice value) and tokens-buffer sizes {source value, 1, 2}; " +
			"for each (input, script) ALL schedules of caller, reader, parser and lexer goroutines with <=B preemptions (quick 1, thorough 2; 3 for single-chunk scripts) are executed, and in addition ALL interleavings without any bound, pruned by a causal-history state key (quick: for scripts of <=2 answers through ParseFile; thorough: for every case, capped at 3x10^6 executions each). Oracle on every execution: quiescence without deadlock, the call returned, no goroutine left and none writing to the writers of the caller after the return, Close count = 1, the delivered read error is the returned error, <=3 reads after the read delivering a lexical failure, outcome identical to the in-memory API on the delivered bytes. " +
			"states/transitions = executions (each a distinct schedule). Sub-check c11.osfile (free-running): the three entry points on real *os.File inputs (regular files incl. an empty one, a pipe, /dev/null): the call returns, gives the in-memory outcome and has closed the file.",
		Subs:           []*fw.Sub{subC11, subC11OSFile},
		BudgetQuick:    170,
		BudgetThorough: 1700,
		Assumptions: []string{"scheduling points are channel operations, select, close, go, locks and atomics; code between them runs atomically (sound if race-free: C12)",
			"readers that block forever or return (0,nil) forever are outside the bound"},
		Run: func(c *fw.Ctx) {
			for _, src := range []string{"", "x", "print 1\n", "def c11target { x = 1 }\nbind c11target -> struct", "print @", "print )\nprint 2", strings.Repeat("print 1\n", 1000)} {
				for _, kind := range []string{"regular", "regular-offset", "pipe", "devnull"} {
					for _, api := range []string{"parse", "interpret", "unmarshal"} {
						c.Do(subC11OSFile, &c11OSFile{Kind: kind, Src: src, API: api})
					}
				}
			}
			type input struct {
				src  string
				cuts []int
			}
			more := strings.Repeat("\nprint 1", 6)
			inputs := []input{
				{"var a = 1\nprint a + 2\n", []int{5, 10, 12}},
				{"def b { x = 1 }\nbind b -> struct", []int{3, 9, 16}},
				{"print )\nprint 1\nprint 2", []int{6, 8, 16}},
				{"print 1\nprint 2\nprint )", []int{8, 16, 22}},
				{"print @" + more, []int{7, 15, 23}},
				{"print 1\nprint 2\nprint @", []int{8, 16, 22}},
				{"print \"ab", []int{3, 7}},
				{"print 1 +\nvar\n", []int{6, 10}},
				{"def é", []int{4, 5}},
				{"x", []int{}},
				// a byte order mark: alone in its own read, split over reads, together with data
				{"\ufeffprint 1\nprint 2", []int{1, 3, 9}},
				{"\ufeff", []int{1, 2}},
				// a faulty token right after a ';' (error recovery must still move on)
				{"eval 1; )\nprint 2; = 3\nvar a = 1; 5", []int{8, 9, 20}},
				// more syntax errors than any "too many errors" limit, with input left after them
				{strings.Repeat("print )\n", 40) + "print 1\nprint (", []int{8, 168, 330}},
				// syntax errors on lines beyond 64 / 128, with more line ends arriving while they are reported
				{strings.Repeat("\n", 70) + "print )\nprint )\n\n\nprint 1\n", []int{40, 75, 82}},
				{strings.Repeat("\n", 130) + "print )\n\n\n\nprint )\n\n", []int{100, 135, 140}},
			}
			bound := 1
			if c.Thorough() {
				bound = 2
			}
			for _, in := range inputs {
				scripts := c11Scripts(len(in.src), in.cuts)
				if len(in.src) > 200 {
					// the long input: chunked scripts without the fault variants (the token stream alone gives hundreds of scheduling points)
					scripts = [][]impl.Answer{impl.Chunks(), impl.Chunks(8), impl.Chunks(168, 162), {{N: 168}, {N: 0, Err: "boom"}}, {{N: len(in.src), Err: "EOF"}}}
				}
				if in.src == "var a = 1\nprint a + 2\n" {
					// forty zero-byte reads in a row before, between and after the data (each is ignored at once: no pause that grows)
					var z []impl.Answer
					for i := 0; i < 40; i++ {
						z = append(z, impl.Answer{N: 0})
					}
					long := append(append(append(append([]impl.Answer{}, z...), impl.Answer{N: 10}), z...), impl.Answer{N: 12})
					scripts = append(scripts, append(long, z...))
				}
				if strings.HasPrefix(in.src, "print @\n") {
					// the early failure followed by 6 further chunks that must not all be read
					var s []impl.Answer
					s = append(s, impl.Answer{N: 7})
					for i := 0; i < 6; i++ {
						s = append(s, impl.Answer{N: 8})
					}
					scripts = append(scripts, s, append([]impl.Answer{{N: 3}, {N: 4}}, s[1:]...))
				}
				for _, sc := range scripts {
					apis := []string{"parse", "interpret", "unmarshal"}
					if len(sc) <= 2 {
						apis = append(apis, "unmarshal-val", "unmarshal-nil", "unmarshal-slice")
					}
					if len(in.src) > 200 {
						apis = []string{"parse", "interpret"}
					}
					if strings.HasPrefix(in.src, "\n\n\n") {
						apis = []string{"parse"} // the many-lines inputs
					}
					for _, api := range apis {
						for _, tb := range []int{0, 1, 2} {
							if tb > 0 && strings.HasPrefix(in.src, "\n\n\n") {
								continue // the many-lines inputs: the token buffer is not what they are about
							}
							if (api != "parse" || len(in.src) > 200) && tb != 0 {
								continue
							}
							b := bound
							if c.Thorough() && len(sc) <= 2 {
								b = 3
							}
							c.Do(subC11, &c11Case{Src: in.src, Script: sc, API: api, TokBuf: tb, Bound: b})
							// an input whose Close reports an error: closed once all the same, nothing left behind
							if tb == 0 && api == "parse" && len(sc) <= 2 {
								c.Do(subC11, &c11Case{Src: in.src, Script: sc, API: api, TokBuf: tb, Bound: bound, CloseFails: true})
							}
							// and ALL interleavings (no bound) with state-key pruning; in the quick tier only for
							// the small harnesses (<=2 scripted answers, the plain ParseFile entry point)
							if c.Thorough() || (len(sc) <= 2 && api == "parse" && len(in.src) <= 26) {
								c.Do(subC11, &c11Case{Src: in.src, Script: sc, API: api, TokBuf: tb, Bound: -1})
							}
							if c.Expired() {
								c.Cap("deadline")
								return
							}
						}
					}
				}
			}
			c.Bound("preemption_bound", bound)
		},
		Finish: func(m *fw.Merged) []string {
			var v []string
			for _, o := range []string{"ok", "error", "lexfail", "read-error-returned"} {
				if m.Outcomes[o] == 0 {
					v = append(v, "vacuous: outcome class never observed: "+o)
				}
			}
			if m.Counters["schedules"] < 1000 {
				v = append(v, "vacuous: fewer than 1000 schedules")
			}
			m.Extra["schedules"] = m.Counters["schedules"]
			return v
		},
	})
}
