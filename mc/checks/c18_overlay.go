package checks

import (
	"encoding/json"
	"fmt"
	"os"
	"path/filepath"

	"verif/mc/fw"
)

// `bclmc cli-overlay` writes an overlay that adds an argument-server to cmd/bcl (nothing is written to /repo).
const argvServerSrc = `package main

import (
	"bufio"
	"encoding/json"
	"os"
)

func init() {
	if os.Getenv("BCLMC_ARGV_SERVER") == "" {
		return
	}
	sc := bufio.NewScanner(os.Stdin)
	sc.Buffer(make([]byte, 1<<16), 1<<20)
	w := bufio.NewWriter(os.Stdout)
	for sc.Scan() {
		var argv []string
		json.Unmarshal(sc.Bytes(), &argv)
		a, err := parseArgs(argv)
		out := map[string]any{"file": a.file, "d": a.disasm, "t": a.trace, "r": a.result, "s": a.stats,
			"bdump": a.bdump, "bload": a.bload, "bdumpFile": a.bdumpFile, "bloadFile": a.bloadFile,
			"help": a.help != nil, "err": err != nil}
		b, _ := json.Marshal(out)
		w.Write(b)
		w.WriteByte('\n')
		w.Flush()
	}
	os.Exit(0)
}
`

func init() {
	fw.Commands["cli-overlay"] = func(args []string) int {
		dir := filepath.Join(fw.WorkDir(), "cli-overlay")
		os.MkdirAll(dir, 0o755)
		src := filepath.Join(dir, "zz_verif_args.go")
		if err := os.WriteFile(src, []byte(argvServerSrc), 0o644); err != nil {
			fmt.Fprintln(os.Stderr, err)
			return 2
		}
		ov := map[string]map[string]string{"Replace": {filepath.Join(fw.RepoDir(), "cmd/bcl/zz_verif_args.go"): src}}
		b, _ := json.Marshal(ov)
		p := filepath.Join(dir, "overlay.json")
		os.WriteFile(p, b, 0o644)
		fmt.Println(p)
		return 0
	}
}
