package checks

import (
	"bytes"
	"crypto/sha256"
	"fmt"
	"os"
	"os/exec"
	"strings"

	"github.com/wkhere/bcl"

	"verif/mc/fw"
	"verif/mc/gen"
	"verif/mc/impl"
	"verif/mc/vsched"
)

// C16 — same input, same outcome.
// (a) map iteration orders: sub c16.maporder (c15.go) + Unmarshal programs below;
// (b) goroutine schedules: outcome identical on every schedule up to a preemption bound;
// (c) call histories: every sequence of <=L API calls, each call's result equals the result
//     of the same call made first in a fresh state; Dump(p) unchanged by Execute(p);
// (d) supplementary: digests from fresh processes with different GOMAXPROCS (sampling).

// ---------------------------------------------------------------- (a') Unmarshal over all map orders

type c16Unm struct {
	Src    string `json:"src"`
	Target string `json:"target"`
}

func (c *c16Unm) Key() string { return c.Target + "|" + c.Src }

type C16A struct {
	Name string
	X    int
	Y    int
}
type C16In struct {
	Name string
	V    int
}
type C16Outer struct {
	X  int
	In C16In
}

func c16Target(name string) any {
	switch name {
	case "A":
		return &C16A{}
	case "Outer":
		return &C16Outer{}
	case "sliceA":
		return &[]C16A{{X: 7}}
	case "T":
		return &T{}
	}
	return new(int)
}

var subC16Unm = &fw.Sub{Name: "c16.unmarshal-maporder", New: func() fw.Case { return &c16Unm{} }, Exec: func(cs fw.Case) *fw.Fail {
	c := cs.(*c16Unm)
	return fw.Guard(func() *fw.Fail {
		if f := requireInstrumented(); f != nil {
			return f
		}
		var obs string
		body := func() {
			t := c16Target(c.Target)
			var out, log bytes.Buffer
			err := bcl.Unmarshal([]byte(c.Src), t, bcl.OptOutput(&out), bcl.OptLogger(&log))
			obs = fmt.Sprintf("err=%v target=%s out=%q log=%q", err, snapshot(t), out.String(), log.String())
		}
		first, set := "", false
		x := &vsched.Explorer{Bound: 0, Body: body, MaxExec: 50000, Check: func(e *vsched.Exec) (string, string) {
			if len(e.Panics) > 0 {
				return "panic", strings.Join(e.Panics, ";")
			}
			if !set {
				first, set = obs, true
			} else if obs != first {
				return "differs", fmt.Sprintf("outcome depends on map iteration order:\n   one order: %s\n   another:   %s", first, obs)
			}
			return "same", ""
		}}
		x.Explore()
		if x.Infra != "" {
			return fw.Failf("deterministic replay", "INFRA %s", x.Infra)
		}
		if x.Fail != "" {
			return fw.Failf("identical target and error for every map iteration order", "choices %v: %s", x.FailTrace, x.Fail)
		}
		fw.Tally("map_orders", int64(x.Executions))
		fw.Tally("states", int64(x.Executions))
		fw.Tally("transitions", x.Steps+int64(x.Executions))
		fw.Tally("traces_validated", int64(x.Executions))
		if x.Executions > 1 {
			fw.TallyOutcome("unmarshal-several-orders")
			fw.TallyNontrivial()
		}
		return nil
	})
}}

// ---------------------------------------------------------------- (b) schedules

type c16Sched struct {
	Src   string `json:"src"`
	API   string `json:"api"` // parse | parsefile | interpret
	Bound int    `json:"bound"`
	Cut   int    `json:"cut,omitempty"` // parsefile: deliver Src[:Cut] first, then the rest (0: three equal chunks)
}

func (c *c16Sched) Key() string { return fmt.Sprintf("%s|%d|%d|%s", c.API, c.Bound, c.Cut, c.Src) }

var subC16Sched = &fw.Sub{Name: "c16.schedules", New: func() fw.Case { return &c16Sched{} }, Exec: func(cs fw.Case) *fw.Fail {
	c := cs.(*c16Sched)
	return fw.Guard(func() *fw.Fail {
		if f := requireInstrumented(); f != nil {
			return f
		}
		var obs string
		body := func() {
			switch c.API {
			case "parse":
				p := impl.Parse(c.Src)
				o := parseObs{errs: p.Err != nil, log: p.Log}
				if p.Err == nil {
					o.dump, _ = impl.Dump(p.Prog)
				}
				obs = fmt.Sprintf("errs=%v log=%q dump=%x", o.errs, o.log, o.dump)
			case "parsefile":
				n := len(c.Src)
				script := impl.Chunks(n/3, n/3)
				if c.Cut > 0 {
					script = impl.Chunks(c.Cut)
				}
				p := impl.ParseFile(impl.NewScriptFile(c.Src, script))
				o := parseObs{errs: p.Err != nil, log: p.Log}
				if p.Err == nil {
					o.dump, _ = impl.Dump(p.Prog)
				}
				obs = fmt.Sprintf("errs=%v log=%q dump=%x", o.errs, o.log, o.dump)
			case "interpret":
				obs = impl.Interpret(c.Src).Summary()
			case "bindbig":
				// Src = "N:i:j": a slice binding of N blocks, block i holds a key the target has no field for, block j a value
				// of the wrong type; which of the two is reported must not depend on schedule or CPU count
				var n, i, j int
				fmt.Sscanf(c.Src, "%d:%d:%d", &n, &i, &j)
				blocks := make([]bcl.Block, n)
				for k := range blocks {
					blocks[k] = bcl.Block{Type: "t", Name: fmt.Sprint("n", k), Fields: map[string]any{"x": k}}
				}
				if i >= 0 && i < n {
					blocks[i].Fields["y"] = 1
				}
				if j >= 0 && j < n {
					blocks[j].Fields["x"] = "s"
				}
				type T struct {
					Name string
					X    int
				}
				var target []T
				err := bcl.Bind(&target, bcl.SliceBinding{Value: blocks})
				sum := 0
				for _, t := range target {
					sum += t.X
				}
				obs = fmt.Sprintf("err=%v len=%d sum=%d", err, len(target), sum)
			}
		}
		first, set := "", false
		total := 0
		var steps int64
		cpuAnswers := []int{0}
		if c.API == "bindbig" {
			cpuAnswers = []int{1, 2, 3, 4, 8, 16}
		}
		defer vsched.SetCPUs(0)
		for _, cpus := range cpuAnswers {
			vsched.SetCPUs(cpus)
			for b := 0; b <= c.Bound; b++ {
				x := &vsched.Explorer{Bound: b, Body: body, MaxExec: maxExecPerCase(), Stop: func() bool { fw.Heartbeat(); return fw.Cur != nil && fw.Cur.Expired() },
					Check: func(e *vsched.Exec) (string, string) {
						if len(e.Panics) > 0 {
							return "panic", strings.Join(e.Panics, ";")
						}
						if e.Deadlock {
							return "deadlock", strings.Join(e.Leaked, ";")
						}
						if !set {
							first, set = obs, true
						} else if obs != first {
							return "differs", fmt.Sprintf("outcome depends on the goroutine schedule:\n   one schedule: %s\n   another:      %s", fw.Trunc(first, 300), fw.Trunc(obs, 300))
						}
						return "same", ""
					}}
				x.Explore()
				total = x.Executions
				steps = x.Steps + int64(x.Executions)
				if x.Infra != "" {
					return fw.Failf("deterministic replay", "INFRA %s", x.Infra)
				}
				if x.Fail != "" {
					return fw.Failf("identical compiled program, diagnostics, output, blocks and binding on every schedule (and for every number of CPUs the code is told)", "bound %d cpus %d schedule %v: %s", b, cpus, x.FailTrace, x.Fail)
				}
				if x.Capped {
					fw.Tally("capped_explorations", 1)
					break
				}
			}
		}
		fw.Tally("schedules", int64(total))
		fw.Tally("states", int64(total))
		fw.Tally("transitions", steps)
		fw.Tally("traces_validated", int64(total))
		fw.TallyOutcome("schedule-independent:" + c.API)
		fw.TallyNontrivial()
		return nil
	})
}}

// ---------------------------------------------------------------- (c) histories

type c16Hist struct {
	Calls []int `json:"calls"` // indices into c16Calls
}

func (c *c16Hist) Key() string { return fmt.Sprint(c.Calls) }

const (
	c16SrcA   = "var a = 1\ndef blk \"n\" { x = a + 1; y = \"s\" }\nprint a\nbind blk -> struct\nbind blk:first -> slice"
	c16SrcB   = "def c16_a { x = 3; y = 4 }\nprint 2.5\nbind c16_a -> struct"
	c16SrcBad = "print )\nvar\nprint 1 +"
	c16SrcRT  = "print 1\ndef q { z = 1/0 }"
)

type c16State struct {
	// retained: live results of earlier calls (bindings, blocks) with the text they showed when returned;
	// later calls must not alter them
	retained   []func() (name, was, now string)
	pA         *bcl.Prog
	dumpA      []byte
	outA, logA *bytes.Buffer // the writers pA was parsed with
	pMid       *bcl.Prog
	dumpMid    []byte
	pRT        *bcl.Prog
	dumpRT     []byte
	pOne, pNeg *bcl.Prog
}

// take returns what was written to b since the last take.
func take(b *bytes.Buffer) string {
	s := b.String()
	b.Reset()
	return s
}

// c16Calls: each returns an observation string; they share a process state (the library) and pA.
var c16Calls = []struct {
	name string
	run  func(st *c16State) string
}{
	{"Parse(A)", func(st *c16State) string { return obsStr(impl.Parse(c16SrcA)) }},
	{"Parse(B)", func(st *c16State) string { return obsStr(impl.Parse(c16SrcB)) }},
	{"Parse(bad)", func(st *c16State) string { return obsStr(impl.Parse(c16SrcBad)) }},
	{"Interpret(rt)", func(st *c16State) string { return impl.Interpret(c16SrcRT).Summary() }},
	{"Execute(pA)", func(st *c16State) string {
		bl, bi, err := bcl.Execute(st.pA)
		d, _ := impl.Dump(st.pA)
		return impl.Ran{Blocks: bl, Binding: bi, Err: err, Out: take(st.outA), Log: take(st.logA)}.Summary() + fmt.Sprintf(" dump-unchanged=%v", bytes.Equal(d, st.dumpA))
	}},
	{"Execute(pA,other writers+trace+stats)", func(st *c16State) string {
		var out2, log2 bytes.Buffer
		bl, bi, err := bcl.Execute(st.pA, bcl.OptOutput(&out2), bcl.OptLogger(&log2), bcl.OptTrace(true), bcl.OptStats(true))
		return impl.Ran{Blocks: bl, Binding: bi, Err: err, Out: take(st.outA), Log: take(st.logA)}.Summary() + fmt.Sprintf(" out2=%q log2=%q", out2.String(), log2.String())
	}},
	{"Dump(pA)", func(st *c16State) string { d, err := impl.Dump(st.pA); return fmt.Sprintf("%x %v", d, err) }},
	{"LoadProg(dA)+Execute", func(st *c16State) string {
		r, err := impl.LoadExec(st.dumpA)
		return fmt.Sprintf("%s loaderr=%v", r.Summary(), err)
	}},
	{"Unmarshal(B,&T)", func(st *c16State) string {
		var t C16A
		var out, log bytes.Buffer
		err := bcl.Unmarshal([]byte(c16SrcB), &t, bcl.OptOutput(&out), bcl.OptLogger(&log))
		return fmt.Sprintf("%+v err=%v out=%q log=%q", t, err, out.String(), log.String())
	}},
	{"Unmarshal(bad,&T)", func(st *c16State) string {
		var t C16A
		var out, log bytes.Buffer
		err := bcl.Unmarshal([]byte(c16SrcBad), &t, bcl.OptOutput(&out), bcl.OptLogger(&log))
		return fmt.Sprintf("%+v err=%v out=%q log=%q", t, err, out.String(), log.String())
	}},
	{"Interpret(slice P1) and keep the result", func(st *c16State) string { return interpretKeep(st, c16SliceP1) }},
	{"Interpret(slice P2) and keep the result", func(st *c16State) string { return interpretKeep(st, c16SliceP2) }},
	{"InterpretFile(A)", func(st *c16State) string {
		return impl.InterpretFile(impl.NewScriptFile(c16SrcA, impl.Chunks(7, 9))).Summary()
	}},
	{"Interpret(A,disasm+trace+stats)", func(st *c16State) string {
		return impl.Interpret(c16SrcA, bcl.OptDisasm(true), bcl.OptTrace(true), bcl.OptStats(true)).Summary()
	}},
	// a program with a deep operand stack and deep nesting, and the statistics of a shallow one
	{"Interpret(deep)", func(st *c16State) string { return impl.Interpret(c16SrcDeep).Summary() }},
	{"Interpret(empty blocks), result written to", func(st *c16State) string {
		return interpretPoison("def e1 {}\ndef e2 \"n\" {}\ndef f { def e3 {}; x = 1 }\nbind e1 -> struct")
	}},
	{"Interpret(B,stats)", func(st *c16State) string { return impl.Interpret(c16SrcB, bcl.OptStats(true)).Summary() }},
	// a second shared Prog whose code fills most of a 4 KiB page
	{"Execute(pMid)+Dump", func(st *c16State) string {
		bl, bi, err := bcl.Execute(st.pMid)
		d, derr := impl.Dump(st.pMid)
		take(st.logA)
		return impl.Ran{Blocks: bl, Binding: bi, Err: err, Out: take(st.outA)}.Summary() + fmt.Sprintf(" dump-unchanged=%v %v", bytes.Equal(d, st.dumpMid), derr)
	}},
	{"Parse(mid2)", func(st *c16State) string { return obsStr(impl.Parse(c16SrcMid2)) }},
	// a read that delivers data together with an error: what is parsed and which error wins must not depend on the
	// number of CPUs (the digest runs this with GOMAXPROCS 1/2/16)
	{"ParseFile(data+error)", func(st *c16State) string {
		return obsStr(impl.ParseFile(impl.NewScriptFile("print 1\nprint )\nprint (", []impl.Answer{{N: 8}, {N: 8, Err: "boom"}})))
	}},
	// (a lexical failure followed by a LATE read error is left out on purpose: whether the reader is cancelled before
	// it reaches the failing read is a matter of timing on the unchanged tree, and C11 accepts both outcomes)
	// a third shared Prog is re-loaded in place from its own dump and executed: positions of its warnings and of
	// its runtime error come from the line table the load installs
	{"Reload(pRT)+Execute", func(st *c16State) string {
		lerr := st.pRT.Load(bytes.NewReader(st.dumpRT))
		bl, bi, err := bcl.Execute(st.pRT)
		d, _ := impl.Dump(st.pRT)
		take(st.outA)
		return impl.Ran{Blocks: bl, Binding: bi, Err: err, Log: take(st.logA)}.Summary() + fmt.Sprintf(" loaderr=%v dump-unchanged=%v", lerr, bytes.Equal(d, st.dumpRT))
	}},
	// a one-token Prog without a trailing newline, traced (its first instruction sits where the listing ended)
	{"Execute(pOne,trace)", func(st *c16State) string {
		var out2 bytes.Buffer
		bl, bi, err := bcl.Execute(st.pOne, bcl.OptTrace(true), bcl.OptOutput(&out2))
		return impl.Ran{Blocks: bl, Binding: bi, Err: err, Out: take(st.outA), Log: take(st.logA)}.Summary() + fmt.Sprintf(" out2=%q", out2.String())
	}},
	{"Execute(pNeg,disasm+trace)", func(st *c16State) string {
		var out2 bytes.Buffer
		bl, bi, err := bcl.Execute(st.pNeg, bcl.OptTrace(true), bcl.OptDisasm(true), bcl.OptOutput(&out2))
		return impl.Ran{Blocks: bl, Binding: bi, Err: err, Out: take(st.outA), Log: take(st.logA)}.Summary() + fmt.Sprintf(" out2=%q", out2.String())
	}},
	{"Execute(pA,stats)", func(st *c16State) string {
		var out2 bytes.Buffer
		bl, bi, err := bcl.Execute(st.pA, bcl.OptOutput(&out2), bcl.OptStats(true))
		return impl.Ran{Blocks: bl, Binding: bi, Err: err, Out: take(st.outA), Log: take(st.logA)}.Summary() + fmt.Sprintf(" out2=%q", out2.String())
	}},
}

const c16SrcRT2 = "\n\ndef w { x = 1 }\n\nbind w -> struct\n   bind w:first -> slice\n\n\nprint 1\ndef q {\n   z = 1 -\n \"s\"\n}\n"

var c16SrcMid = strings.Repeat("print 1 + 2 * 3\n", 400) + "def mid { x = 1 }\nbind mid -> struct"
var c16SrcMid2 = strings.Repeat("print \"z\" + 7\n", 450)

const c16SrcDeep = "print 1+(2+(3+(4+(5+(6+(7+(8+9)))))))\ndef a { def b { def c { def d { x = 1+(2+(3+4)) } } } }\nprint 1/0"

const (
	c16SliceP1 = "def s \"a\" { v = 1 }\ndef t { w = 0 }\ndef s \"b\" { v = 2 }\nbind s:all -> slice"
	c16SliceP2 = "def t \"x\" { v = 10 }\ndef t \"y\" { v = 20 }\ndef t \"z\" { v = 30 }\nbind t:all -> slice"
)

// interpretKeep interprets src and retains the live blocks and binding for later inspection.
// interpretPoison interprets src, renders the result and then writes into every map of it (the caller owns
// what it got): later calls must not see those writes.
func interpretPoison(src string) string {
	r := impl.Interpret(src)
	s := r.Summary()
	impl.Poison(r.Blocks, r.Binding)
	return s
}

func interpretKeep(st *c16State, src string) string {
	var out, log bytes.Buffer
	bl, bi, err := bcl.Interpret([]byte(src), bcl.OptOutput(&out), bcl.OptLogger(&log))
	was := fmt.Sprintf("blocks=%s binding=%s", impl.BlocksStr(bl), impl.BindingStr(bi))
	st.retained = append(st.retained, func() (string, string, string) {
		return "the result of an earlier Interpret", was, fmt.Sprintf("blocks=%s binding=%s", impl.BlocksStr(bl), impl.BindingStr(bi))
	})
	return fmt.Sprintf("%s err=%v", was, err)
}

func obsStr(p impl.Parsed) string {
	o := parseObs{errs: p.Err != nil, log: p.Log}
	if p.Err == nil {
		o.dump, _ = impl.Dump(p.Prog)
	}
	return fmt.Sprintf("errs=%v log=%q dump=%x", o.errs, o.log, o.dump)
}

func newC16State() *c16State {
	st := &c16State{outA: &bytes.Buffer{}, logA: &bytes.Buffer{}}
	p, _ := bcl.Parse([]byte(c16SrcA), "input", bcl.OptOutput(st.outA), bcl.OptLogger(st.logA))
	st.pA = p
	st.dumpA, _ = impl.Dump(p)
	st.pMid, _ = bcl.Parse([]byte(c16SrcMid), "input", bcl.OptOutput(st.outA), bcl.OptLogger(st.logA))
	st.dumpMid, _ = impl.Dump(st.pMid)
	st.pRT, _ = bcl.Parse([]byte(c16SrcRT2), "input", bcl.OptOutput(st.outA), bcl.OptLogger(st.logA))
	st.dumpRT, _ = impl.Dump(st.pRT)
	st.pOne, _ = bcl.Parse([]byte("print 1"), "input", bcl.OptOutput(st.outA), bcl.OptLogger(st.logA), bcl.OptDisasm(true))
	st.pNeg, _ = bcl.Parse([]byte("print -nil"), "input", bcl.OptOutput(st.outA), bcl.OptLogger(st.logA))
	take(st.outA)
	return st
}

// c16Fresh: the result of each call made as the first call (computed in this process before
// any history; cross-checked against a fresh process by the supplementary digest).
var c16Fresh []string

var subC16Hist = &fw.Sub{Name: "c16.histories", New: func() fw.Case { return &c16Hist{} }, Exec: func(cs fw.Case) *fw.Fail {
	c := cs.(*c16Hist)
	return fw.Guard(func() *fw.Fail {
		if c16Fresh == nil {
			for _, call := range c16Calls {
				c16Fresh = append(c16Fresh, call.run(newC16State()))
			}
		}
		st := newC16State()
		var names []string
		for _, k := range c.Calls {
			names = append(names, c16Calls[k].name)
			got := c16Calls[k].run(st)
			if got != c16Fresh[k] {
				return fw.Failf("each call's result equals its result as the first call of a fresh state: "+fw.Trunc(c16Fresh[k], 300),
					"after history %v: %s", names, fw.Trunc(got, 300))
			}
			for _, r := range st.retained {
				if what, was, now := r(); was != now {
					return fw.Failf(what+" is not altered by later calls: "+fw.Trunc(was, 300), "after history %v it reads: %s", names, fw.Trunc(now, 300))
				}
			}
		}
		fw.TallyOutcome("history-independent")
		fw.TallyNontrivial()
		return nil
	})
}}

// C16Digest prints a digest of all first-call results (used by the supplementary fresh-process pass).
func C16Digest() string {
	h := sha256.New()
	for _, call := range c16Calls {
		fmt.Fprintln(h, call.run(newC16State()))
	}
	for _, src := range gen.Small() {
		if !excluded(src) {
			fmt.Fprintln(h, func() (s string) {
				defer func() {
					if r := recover(); r != nil {
						s = fmt.Sprint("panic ", r)
					}
				}()
				return impl.Interpret(src).Summary()
			}())
		}
	}
	// wide sources (thousands of distinct identifiers, constants, locals): the compiled bytes, and run-time errors raised
	// in blocks whose entries differ in letter case only (the real map order of this process decides what a range sees)
	for _, fam := range gen.DenseFamilies(false) {
		if strings.HasPrefix(fam.Name, "dense-idents-") || fam.Name == "dense-ints-3" || fam.Name == "dense-consts-330" || fam.Name == "dense-locals-330" {
			p := impl.Parse(fam.Src)
			d, _ := impl.Dump(p.Prog)
			fmt.Fprintf(h, "%s %x\n", fam.Name, sha256.Sum256(d))
		}
	}
	for _, src := range []string{"def a { maxConns = 1; maxconns = 2; MAXCONNS = 3; maxCONNS = 4; x = MaxConns }", "def a { ab = 1; aB = 2; Ab = 3; print AB }"} {
		fmt.Fprintln(h, impl.Interpret(src).Summary())
	}
	// colliding keys / several errors at once through Unmarshal (map order inside one process is random)
	for _, src := range c16UnmSources {
		for _, tn := range []string{"A", "Outer", "sliceA"} {
			t := c16Target(tn)
			var out, log bytes.Buffer
			err := bcl.Unmarshal([]byte(src), t, bcl.OptOutput(&out), bcl.OptLogger(&log))
			fmt.Fprintf(h, "err=%v target=%s\n", err, snapshot(t))
		}
	}
	return fmt.Sprintf("%x", h.Sum(nil))
}

var c16UnmSources = []string{
	"def c16_a { x = 1; X = 2 }\nbind c16_a -> struct",
	"def c16_a { x = \"\"; y = 2.5 }\nbind c16_a -> struct",
	"def c16_a \"nm\" { x = 1; y = 2 }\nbind c16_a -> struct",
	"def c16_a \"nm\" { x = 1; name = \"other\" }\nbind c16_a -> struct",
	"def c16_outer { x = 1; def in \"p\" { v = 1 }; def in \"q\" { v = 2 } }\nbind c16_outer -> struct",
	"def c16_outer { def in \"p\" { v = 1; w = 2; u = 3 } }\nbind c16_outer -> struct",
	"def c16_a { x = 1; y = 2 }\ndef c16_a { y = nil; x = \"s\" }\nbind c16_a:all -> slice",
	"def c16_a { a = 1; b = 2; c = 3 }\nbind c16_a -> struct",
	"def c16_outer { x = 1; in = 2; def in { v = 3 } }\nbind c16_outer -> struct",
}

// c16RecTable: the outcome of every (same-named type, block) Bind, after first binding type `first`.
func c16RecTable(first int) string {
	var sb strings.Builder
	order := []int{first}
	for t := range c15RecTargets {
		if t != first {
			order = append(order, t)
		}
	}
	res := map[string]string{}
	for _, t := range order {
		for bi, f := range c15RecBlocks {
			target := c15RecTargets[t]()
			fields := map[string]any{}
			for k, v := range f {
				fields[k] = v
			}
			err := bcl.Bind(target, bcl.StructBinding{Value: bcl.Block{Type: "rec", Fields: fields}})
			res[fmt.Sprintf("%d/%d", t, bi)] = fmt.Sprintf("err=%v target=%s", err, snapshot(target))
		}
	}
	for t := range c15RecTargets {
		for bi := range c15RecBlocks {
			k := fmt.Sprintf("%d/%d", t, bi)
			fmt.Fprintf(&sb, "%s: %s\n", k, res[k])
		}
	}
	return sb.String()
}

type c16FreshCase struct {
	First int `json:"first"`
}

func (c *c16FreshCase) Key() string { return fmt.Sprint(c.First) }

// c16.fresh-history: each history starts in a FRESH process (process-wide caches empty).
var subC16Fresh = &fw.Sub{Name: "c16.fresh-history", New: func() fw.Case { return &c16FreshCase{} }, Exec: func(cs fw.Case) *fw.Fail {
	c := cs.(*c16FreshCase)
	run := func(first int) (string, error) {
		cmd := exec.Command(os.Args[0], "c16-rec", fmt.Sprint(first))
		out, err := cmd.Output()
		return string(out), err
	}
	base, err := run(0)
	if err != nil {
		return fw.Failf("fresh process runs", "%v", err)
	}
	got, err := run(c.First)
	if err != nil {
		return fw.Failf("fresh process runs", "%v", err)
	}
	if got != base {
		bl, gl := strings.Split(base, "\n"), strings.Split(got, "\n")
		for i := range bl {
			if i < len(gl) && bl[i] != gl[i] {
				return fw.Failf("Bind outcome independent of which type was bound first in the process: "+bl[i], "when type %d is bound first: %s", c.First, gl[i])
			}
		}
		return fw.Failf("identical outcome tables", "tables differ")
	}
	fw.TallyOutcome("fresh-history-independent")
	fw.TallyNontrivial()
	return nil
}}

// c16.callerslices: a call is given opts[:k]... of a slice that has spare capacity; the slots beyond k belong to the
// caller (they hold nil here) and must still hold nil afterwards, and the k options given must have had their effect.
type c16Slices struct {
	API string `json:"api"`
}

func (c *c16Slices) Key() string { return c.API }

var subC16Slices = &fw.Sub{Name: "c16.callerslices", New: func() fw.Case { return &c16Slices{} }, Exec: func(cs fw.Case) *fw.Fail {
	c := cs.(*c16Slices)
	return fw.Guard(func() *fw.Fail {
		var out, log bytes.Buffer
		list := make([]bcl.Option, 6)
		list[0], list[1] = bcl.OptOutput(&out), bcl.OptLogger(&log)
		src := "def c11target { x = 1 }\nbind c11target -> struct"
		dump, _ := dumpOf(src)
		for k := 0; k <= 2; k++ {
			opts := list[:k]
			switch c.API {
			case "Parse":
				bcl.Parse([]byte(src), "n", opts...)
			case "ParseFile":
				bcl.ParseFile(impl.NewScriptFile(src, nil), opts...)
			case "Interpret":
				bcl.Interpret([]byte(src), opts...)
			case "InterpretFile":
				bcl.InterpretFile(impl.NewScriptFile(src, nil), opts...)
			case "Unmarshal":
				var t c11Target
				bcl.Unmarshal([]byte(src), &t, opts...)
			case "UnmarshalFile":
				var t c11Target
				bcl.UnmarshalFile(impl.NewScriptFile(src, nil), &t, opts...)
			case "LoadProg":
				bcl.LoadProg(bytes.NewReader(dump), "n", opts...)
			case "Execute":
				if p, err := bcl.Parse([]byte(src), "n", bcl.OptOutput(&out), bcl.OptLogger(&log)); err == nil {
					bcl.Execute(p, opts...)
				}
			}
			for i := k; i < len(list); i++ {
				if i >= 2 && list[i] != nil {
					return fw.Failf(fmt.Sprintf("%s(opts[:%d]...) leaves the caller's slice alone beyond the %d options given", c.API, k, k), "slot %d of the caller's slice was overwritten", i)
				}
			}
			if list[0] == nil || list[1] == nil {
				return fw.Failf("the options given stay in place", "slot 0 or 1 was cleared")
			}
		}
		fw.TallyOutcome("caller-slices-untouched")
		fw.TallyNontrivial()
		return nil
	})
}}

func init() {
	fw.Commands["c16-rec"] = func(args []string) int {
		first := 0
		if len(args) > 0 {
			fmt.Sscan(args[0], &first)
		}
		fmt.Print(c16RecTable(first))
		return 0
	}
	fw.Commands["c16-digest"] = func(args []string) int {
		fmt.Println(C16Digest())
		return 0
	}
	fw.Register(&fw.Check{
		ID:    "C16",
		Level: "model_checking",
		Rule: "(a) every map iteration order (explored exhaustively through the map-order choice point of the rewritten package) of every range-over-map executed by Bind, for the binding x target space of C15 and for Unmarshal of programs whose keys collide on one field, hold several faulty fields, or hold several named inner blocks: target and error text must be identical for all orders; " +
			"(b) every goroutine schedule with <=B preemptions (quick 1, thorough 2) of Parse, ParseFile (3 chunks) and Interpret on corpus inputs (valid, several diagnostics, lexical failure): dump bytes, diagnostics, output, blocks, binding identical on all schedules; " +
			"(c) every history of <=L calls (quick 3, thorough 4) over a 24-call alphabet (one-token Progs executed with trace, a result with empty blocks whose maps the caller then writes to, ParseFile with a data+error read, a Prog re-loaded in place from its own dump and executed, a second shared Prog with ~3 kB of code executed and dumped, another mid-size compilation, Parse of 3 inputs, Interpret, Execute/Dump of one shared Prog, LoadProg+Execute, Unmarshal good/bad, InterpretFile, Interpret with all options, a deep-stack/deep-nesting program, statistics of a shallow program and of the shared Prog): each call's result equals its result as the first call of a fresh state, and Dump(p) is unchanged by Execute(p); histories that start in a fresh process (each of three same-named struct types bound first) must give the same Bind outcome table; long histories (sub-check c16.soak: 3 000 ... 70 000 calls in one process, thorough four times as many: Interpret / Parse+Dump+LoadProg+Execute / ParseFile of a source of its own per call, one Prog executed again and again, one Prog re-loaded in place from two alternating dumps, Unmarshal into thousands of struct types of their own, diagnostics on a line of their own) are judged call by call against closed-form expectations, with the first inputs and the Progs kept from the start re-visited at every power of two; " +
			"(d) supplementary (sampling): a digest over all first-call results from fresh processes with GOMAXPROCS 1/2/16 (different hash seeds) must be identical.",
		Subs:           []*fw.Sub{subC16Map, subC16Unm, subC16Sched, subC16Hist, subC16Fresh, subC16Slices, subC16Soak},
		BudgetQuick:    100,
		BudgetThorough: 1500,
		Assumptions: []string{"hash seeds are observable only through map iteration order and CPU counts only through scheduling; both are enumerated instead of sampled",
			"histories are limited to the 24-call alphabet"},
		Run: func(c *fw.Ctx) {
			for first := range c15RecTargets {
				c.Do(subC16Fresh, &c16FreshCase{First: first})
			}
			for _, api := range []string{"Parse", "ParseFile", "Interpret", "InterpretFile", "Unmarshal", "UnmarshalFile", "LoadProg", "Execute"} {
				c.Do(subC16Slices, &c16Slices{API: api})
			}
			// (c') long histories: tens of thousands of calls in one process, each judged by a closed-form expectation
			for _, sc := range c16SoakCases(c.Thorough()) {
				c.Do(subC16Soak, sc)
			}
			// (c) histories
			L := 3
			if c.Thorough() {
				L = 4
			}
			for n := 1; n <= L; n++ {
				idx := make([]int, n)
				for {
					c.Do(subC16Hist, &c16Hist{Calls: append([]int{}, idx...)})
					k := n - 1
					for k >= 0 {
						idx[k]++
						if idx[k] < len(c16Calls) {
							break
						}
						idx[k] = 0
						k--
					}
					if k < 0 {
						break
					}
				}
				c.Bound("history_length_completed", n)
			}
			// (a') Unmarshal map orders
			for _, src := range c16UnmSources {
				for _, tn := range []string{"A", "Outer", "sliceA", "T"} {
					c.Do(subC16Unm, &c16Unm{Src: src, Target: tn})
				}
			}
			// (b) schedules
			bound := 1
			if c.Thorough() {
				bound = 2
			}
			n := 0
			for _, src := range gen.Small() {
				if len(src) > 60 || excluded(src) {
					continue
				}
				n++
				if c.Quick() && n%3 != 0 {
					continue
				}
				c.Do(subC16Sched, &c16Sched{Src: src, API: "parse", Bound: bound + 1})
				c.Do(subC16Sched, &c16Sched{Src: src, API: "interpret", Bound: bound + 1})
				if len(src) >= 6 {
					c.Do(subC16Sched, &c16Sched{Src: src, API: "parsefile", Bound: bound})
				}
				if c.Expired() {
					c.Cap("deadline during schedules")
					return
				}
			}
			// several diagnostics on several lines, the input cut at every offset: which line ends the lexer
			// has already seen when the parser formats a position depends on the schedule only
			// a block that closes a few tokens before a lexical failure (what the parser knows about the lexer's progress is timing)
			for _, src := range []string{"def b {\n x = 1\n}\nprint 1 @\nprint 2\n", "def a { def b { x = 1 } }\n\n\"open\n", "def b { x = ) }\ndef c { }\n@"} {
				c.Do(subC16Sched, &c16Sched{Src: src, API: "parse", Bound: bound + 1})
				c.Do(subC16Sched, &c16Sched{Src: src, API: "parsefile", Bound: bound})
				c.Do(subC16Sched, &c16Sched{Src: src, API: "parsefile", Bound: bound, Cut: 9})
			}
			// run-time errors raised inside blocks that hold several fields which differ in letter case only, or several children:
			// whatever the error text says about the block's other entries must not depend on map iteration order
			for _, src := range []string{"def a { maxConns = 1; maxconns = 2; x = MaxConns }", "def a { ab = 1; aB = 2; Ab = 3; print AB }", "def a { x = 1; X = 2; y = x + nil }",
				"def a { def b { }; def b \"n\" { }; def B { }; def b { } }", "def a { x = 1; X = 2; def c { print y } }", "def t { p = 1; P = 2 }\ndef T { }\nbind tt -> struct"} {
				c.Do(subC16Sched, &c16Sched{Src: src, API: "interpret", Bound: bound})
			}
			// slice bindings of many blocks, two of them faulty in different ways: the error must not depend on schedule or on
			// the number of CPUs the library is told (runtime.GOMAXPROCS / NumCPU are answers of the harness under E1)
			for _, n := range []int{3, 130, 257, 1030} {
				pos := []int{0, 1, n / 8, n/4 - 1, n / 4, n/2 - 1, n / 2, 3 * n / 4, n - 2, n - 1}
				if c.Quick() {
					pos = []int{0, n / 8, n/2 - 1, n / 2, n - 1}
				}
				for _, i := range pos {
					for _, j := range pos {
						if i != j && i >= 0 && j >= 0 {
							c.Do(subC16Sched, &c16Sched{Src: fmt.Sprintf("%d:%d:%d", n, i, j), API: "bindbig", Bound: bound})
						}
					}
				}
				c.Do(subC16Sched, &c16Sched{Src: fmt.Sprintf("%d:%d:%d", n, -1, -1), API: "bindbig", Bound: bound})
			}
			for _, src := range []string{"print )\nprint )\nprint 3\nprint )\nprint )\n", "print (\n\nvar\n)\n\n\nprint )"} {
				for cut := 1; cut < len(src); cut++ {
					c.Do(subC16Sched, &c16Sched{Src: src, API: "parsefile", Bound: bound, Cut: cut})
				}
				if c.Expired() {
					c.Cap("deadline during schedules")
					return
				}
			}
			// (a) the C15 space judged for order independence
			c15Tables()
			bs := c15Bindings(c.Quick())
			ts := c15Targets()
			for _, t := range ts {
				for _, b := range bs {
					if !strings.Contains(b.name, " ") {
						continue // fewer than two keys: a single order
					}
					c.Do(subC16Map, &c15Case{B: b.name, T: t.name})
				}
				if c.Expired() {
					c.Cap("deadline during map orders")
					return
				}
			}
		},
		Finish: func(m *fw.Merged) []string {
			var v []string
			for _, o := range []string{"history-independent", "long-history-independent", "unmarshal-several-orders", "schedule-independent:parsefile", "several-map-orders"} {
				if m.Outcomes[o] == 0 {
					v = append(v, "vacuous: outcome class never observed: "+o)
				}
			}
			m.Extra["map_orders"] = m.Counters["map_orders"]
			m.Extra["schedules"] = m.Counters["schedules"]
			// (d) supplementary: fresh processes (uninstrumented binary) with different GOMAXPROCS
			bin := fw.WorkDir() + "/bclmc"
			if _, err := os.Stat(bin); err == nil {
				digests := map[string]int{}
				runs := 0
				for _, procs := range []string{"1", "2", "16", "3"} {
					for rep := 0; rep < 3; rep++ {
						cmd := exec.Command(bin, "c16-digest")
						cmd.Env = append(os.Environ(), "GOMAXPROCS="+procs)
						out, err := cmd.Output()
						runs++
						if err != nil {
							v = append(v, "supplementary digest run failed: "+err.Error())
							continue
						}
						digests[strings.TrimSpace(string(out))]++
					}
				}
				m.Extra["supplementary_fresh_process_runs"] = runs
				if len(digests) > 1 {
					m.Violations = append(m.Violations, &fw.Violation{Property: "C16", Sub: "c16.fresh-process-digest", Key: "digest",
						Case: []byte(`{"run":"bclmc c16-digest under GOMAXPROCS 1,2,3,16"}`), Expected: "identical digest of all results in every fresh process (supplementary, sampling)",
						Observed: fmt.Sprintf("%d different digests: %v", len(digests), digests), Reproduced: 1})
					m.ViolationsN++
				}
			}
			return v
		},
	})
}
