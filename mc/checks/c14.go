package checks

import (
	"bytes"
	"encoding/base64"
	"encoding/json"
	"fmt"
	"os"
	"path/filepath"
	"strings"

	"github.com/wkhere/bcl"

	"verif/mc/bc"
	"verif/mc/fw"
	"verif/mc/gen"
	"verif/mc/impl"
	"verif/mc/ref"
)

// C14 — the version 1.1 bytecode file format is stable.

// summaryOfRef renders a reference-VM result in the same shape as impl.Ran.Summary, with
// the error reduced to class + position offset (the implementation's message text is free).
func refVMSummary(p *bc.Prog, rv *bc.RunResult) string {
	out := ""
	for _, l := range rv.Out {
		out += l + "\n"
	}
	errs := ""
	if rv.ErrClass != "" {
		errs = fmt.Sprintf("%s@%d", rv.ErrClass, p.Positions[rv.ErrPC])
	}
	var warns []int
	for _, pc := range rv.Warnings {
		warns = append(warns, p.Positions[pc])
	}
	return fmt.Sprintf("out=%q err=%s warns=%v blocks=%s binding=%s", out, errs, warns, ref.BlocksStr(rv.Blocks), ref.BindingStr(rv.Binding))
}

// implSummary reduces a real execution to the same shape. lfs are the newline offsets (from the dump).
func implSummary(r impl.Ran, lfs []int) string {
	toOff := func(line, col int) int {
		// inverse of the documented line:col rule, using the line table
		if line == 1 {
			return col - 1
		}
		if line-2 < len(lfs) {
			return lfs[line-2] + col
		}
		return -1
	}
	errs := ""
	if r.Err != nil {
		if m := rtRe.FindStringSubmatch(r.Err.Error()); m != nil {
			var l, c int
			fmt.Sscan(m[1], &l)
			fmt.Sscan(m[2], &c)
			errs = fmt.Sprintf("%s@%d", rtClass(m[3]), toOff(l, c))
		} else {
			errs = "other:" + r.Err.Error()
		}
	}
	var warns []int
	if r.Log != "" {
		for _, ln := range strings.Split(strings.TrimSuffix(r.Log, "\n"), "\n") {
			if m := warnRe.FindStringSubmatch(ln); m != nil {
				var l, c int
				fmt.Sscan(m[1], &l)
				fmt.Sscan(m[2], &c)
				warns = append(warns, toOff(l, c))
			} else {
				warns = append(warns, -2)
			}
		}
	}
	bl := impl.BlocksStr(r.Blocks)
	if r.Blocks == nil {
		bl = "[]"
	}
	return fmt.Sprintf("out=%q err=%s warns=%v blocks=%s binding=%s", r.Out, errs, warns, bl, impl.BindingStr(r.Binding))
}

// ---------------------------------------------------------------- (c) every dump decodes and re-executes independently

func c14DecodeExec(cs fw.Case) *fw.Fail {
	c := cs.(*progCase)
	if excluded(c.Src) {
		return nil
	}
	dp, _, dump, status := compileDecode(c.Src)
	switch {
	case status == "rejected":
		fw.TallyOutcome("rejected")
		return nil
	case status != "" && dp == nil && dump == nil:
		fw.TallyOutcome("dump-failed")
		return nil
	case status != "":
		return fw.Failf("dump follows the documented layout (magic FC 6C, version, name, code, typed constants, positions, line table)", "%s", status)
	}
	if dp.Major != 1 || dp.Minor != 1 {
		return fw.Failf("version 1.1", "version %d.%d", dp.Major, dp.Minor)
	}
	// canonical encoding: re-encoding the decoded parts gives the same bytes
	if !bytes.Equal(dp.Encode(), dump) {
		return fw.Failf("canonical big-endian sqlite4 varints and typed values (independent re-encoding is byte-identical)", "re-encoding of the decoded parts differs from the dump")
	}
	rv := bc.Run(dp, 1<<22)
	if rv.Internal != "" {
		return fw.Failf("code section is valid for the pinned opcode table", "reference VM: %s", rv.Internal)
	}
	if rv.Unspecified != "" {
		fw.TallyOutcome("unspecified")
		return nil
	}
	return fw.Guard(func() *fw.Fail {
		got, err := impl.LoadExec(dump)
		if err != nil {
			return fw.Failf("LoadProg accepts its own dump", "%v", err)
		}
		want := refVMSummary(dp, rv)
		if g := implSummary(got, dp.Lfs); g != want {
			return fw.Failf("independent decoder + reference VM: "+fw.Trunc(want, 400), "real LoadProg+Execute: %s", fw.Trunc(g, 400))
		}
		fw.TallyOutcome("decoded-and-reexecuted")
		fw.TallyNontrivial()
		return nil
	})
}

var subC14Dec = &fw.Sub{Name: "c14.decode", New: func() fw.Case { return &progCase{} }, Exec: c14DecodeExec}

// ---------------------------------------------------------------- (b) hand-assembled instruction sequences

type c14Seq struct {
	Ops []int `json:"ops"` // indices into c14Alphabet
}

func (c *c14Seq) Key() string { return fmt.Sprint(c.Ops) }

type asmInstr struct {
	op   int
	a, b int
	skip int // for JUMP/JFALSE: number of following instructions to skip
}

var c14Consts = []any{"blk", "", "fld", int64(-3), 2.5, "s", true, nil}

var c14Alphabet = []asmInstr{
	{op: bc.NOP}, {op: bc.PRINT}, {op: bc.SETLOCAL, a: 0}, {op: bc.GETLOCAL, a: 0}, {op: bc.GETLOCAL, a: 1},
	{op: bc.DEFBLOCK, a: 0, b: 1}, {op: bc.DEFBLOCK, a: 0, b: 5}, {op: bc.ENDBLOCK}, {op: bc.SETFIELD, a: 2}, {op: bc.GETFIELD, a: 2},
	{op: bc.CONST, a: 3}, {op: bc.CONST, a: 4}, {op: bc.CONST, a: 5}, {op: bc.CONST, a: 6}, {op: bc.CONST, a: 7},
	{op: bc.NIL}, {op: bc.ZERO}, {op: bc.ONE}, {op: bc.TRUE}, {op: bc.FALSE},
	{op: bc.NOT}, {op: bc.EQ}, {op: bc.LT}, {op: bc.GT}, {op: bc.ADD}, {op: bc.SUB}, {op: bc.MUL}, {op: bc.DIV}, {op: bc.NEG}, {op: bc.UNPLUS},
	{op: bc.JUMP, skip: 1}, {op: bc.JFALSE, skip: 1}, {op: bc.JFALSE, skip: 2}, {op: bc.POP}, {op: bc.POPN, a: 2},
	{op: bc.BIND, a: 0, b: bc.BindStruct | bc.SelOne}, {op: bc.BIND, a: 0, b: bc.BindSlice | bc.SelAll}, {op: bc.BIND, a: 0, b: bc.BindSlice | bc.SelLast},
}

func assemble(ops []int) *bc.Prog {
	var ins []asmInstr
	for _, k := range ops {
		ins = append(ins, c14Alphabet[k])
	}
	ins = append(ins, asmInstr{op: bc.RET})
	size := func(in asmInstr) int {
		switch in.op {
		case bc.JUMP, bc.JFALSE, bc.LOOP:
			return 3
		case bc.DEFBLOCK:
			return 1 + len(bc.PutUvarint(nil, uint64(in.a))) + len(bc.PutUvarint(nil, uint64(in.b)))
		case bc.BIND:
			return 1 + len(bc.PutUvarint(nil, uint64(in.a))) + 1
		case bc.SETLOCAL, bc.GETLOCAL, bc.SETFIELD, bc.GETFIELD, bc.CONST, bc.POPN:
			return 1 + len(bc.PutUvarint(nil, uint64(in.a)))
		}
		return 1
	}
	var code []byte
	for i, in := range ins {
		code = append(code, byte(in.op))
		switch in.op {
		case bc.JUMP, bc.JFALSE:
			d := 0
			for k := 1; k <= in.skip && i+k < len(ins); k++ {
				d += size(ins[i+k])
			}
			code = append(code, byte(d>>8), byte(d))
		case bc.DEFBLOCK:
			code = bc.PutUvarint(code, uint64(in.a))
			code = bc.PutUvarint(code, uint64(in.b))
		case bc.BIND:
			code = bc.PutUvarint(code, uint64(in.a))
			code = append(code, byte(in.b))
		case bc.SETLOCAL, bc.GETLOCAL, bc.SETFIELD, bc.GETFIELD, bc.CONST, bc.POPN:
			code = bc.PutUvarint(code, uint64(in.a))
		}
	}
	return &bc.Prog{Major: 1, Minor: 1, Name: "asm", Code: code, Consts: c14Consts, Positions: instrPositions(code)}
}

// instrPositions gives every byte of an instruction the same position (as the compiler
// does): 1 + the instruction's offset, all on line 1.
func instrPositions(code []byte) []int {
	pos := make([]int, len(code))
	list, _ := bc.Listing(code)
	for _, in := range list {
		for k := 0; k < in.Len; k++ {
			pos[in.Off+k] = in.Off + 1
		}
	}
	return pos
}

func execAssembled(p *bc.Prog) *fw.Fail {
	rv := bc.Run(p, 100000)
	if rv.Internal != "" {
		return fw.Failf("reference VM runs a verified program", "%s", rv.Internal)
	}
	if rv.Unspecified != "" {
		fw.TallyOutcome("unspecified")
		return nil
	}
	return fw.Guard(func() *fw.Fail {
		got, err := impl.LoadExec(p.Encode())
		if err != nil {
			return fw.Failf("LoadProg accepts a well-formed version 1.1 file", "%v", err)
		}
		want := refVMSummary(p, rv)
		if g := implSummary(got, p.Lfs); g != want {
			return fw.Failf("reference VM: "+fw.Trunc(want, 400), "real VM: %s", fw.Trunc(g, 400))
		}
		if rv.ErrClass != "" {
			fw.TallyOutcome("asm-runtime-error")
		} else {
			fw.TallyOutcome("asm-ok")
		}
		fw.TallyNontrivial()
		return nil
	})
}

var subC14Seq = &fw.Sub{Name: "c14.asm", New: func() fw.Case { return &c14Seq{} }, Exec: func(cs fw.Case) *fw.Fail {
	c := cs.(*c14Seq)
	p := assemble(c.Ops)
	if _, err := bc.Verify(p); err != nil {
		fw.TallyOutcome("not-well-formed")
		return nil
	}
	return execAssembled(p)
}}

// ---------------------------------------------------------------- (a) recorded corpus

type corpusEntry struct {
	Name   string `json:"name"`
	Bcb    string `json:"bcb"` // base64
	Expect string `json:"expect"`
	Src    string `json:"src,omitempty"`
}

func corpusPath() string { return filepath.Join(fw.VerifDir, "corpus", "v1_1", "corpus.json") }

var corpusCache []corpusEntry

func loadCorpus() []corpusEntry {
	if corpusCache != nil {
		return corpusCache
	}
	b, err := os.ReadFile(corpusPath())
	if err != nil {
		return nil
	}
	json.Unmarshal(b, &corpusCache)
	return corpusCache
}

type c14File struct {
	Name string `json:"name"`
}

func (c *c14File) Key() string { return c.Name }

var subC14File = &fw.Sub{Name: "c14.corpus", New: func() fw.Case { return &c14File{} }, Exec: func(cs fw.Case) *fw.Fail {
	c := cs.(*c14File)
	for _, e := range loadCorpus() {
		if e.Name != c.Name {
			continue
		}
		raw, err := base64.StdEncoding.DecodeString(e.Bcb)
		if err != nil {
			return fw.Failf("corpus entry decodes", "%v", err)
		}
		return fw.Guard(func() *fw.Fail {
			got, lerr := impl.LoadExec(raw)
			if lerr != nil {
				return fw.Failf("recorded file loads", "%v", lerr)
			}
			if g := got.Summary(); g != e.Expect {
				return fw.Failf("recorded: "+fw.Trunc(e.Expect, 400), "now: %s", fw.Trunc(g, 400))
			}
			// the same file loaded with the exported Load method into a Prog that held another program before
			var out, log bytes.Buffer
			q, perr := bcl.Parse([]byte("\n\n# previous\n\nprint \"previous\" + 1.5\ndef p \"q\" { f = 2 }\n"), "previous", bcl.OptOutput(&out), bcl.OptLogger(&log))
			if perr != nil {
				return fw.Failf("helper program parses", "%v", perr)
			}
			if lerr := q.Load(bytes.NewReader(raw)); lerr != nil {
				return fw.Failf("recorded file loads into a used Prog", "%v", lerr)
			}
			bl, bi, xerr := bcl.Execute(q)
			if g := (impl.Ran{Blocks: bl, Binding: bi, Err: xerr, Out: out.String(), Log: log.String()}).Summary(); g != e.Expect {
				return fw.Failf("loaded into a Prog that held another program before, recorded: "+fw.Trunc(e.Expect, 400), "now: %s", fw.Trunc(g, 400))
			}
			var d2 bytes.Buffer
			if derr := q.Dump(&d2); derr == nil {
				dp1, e1 := bc.Decode(raw)
				dp2, e2 := bc.Decode(d2.Bytes())
				if e1 == nil && e2 == nil && (fmt.Sprint(dp1.Lfs) != fmt.Sprint(dp2.Lfs) || fmt.Sprint(dp1.Positions) != fmt.Sprint(dp2.Positions) || !bytes.Equal(dp1.Code, dp2.Code)) {
					return fw.Failf("re-dump of the re-used Prog has the file's code, positions and line table", "line table %v vs %v", trimInts(dp1.Lfs), trimInts(dp2.Lfs))
				}
				// ... and the file's typed constants, one by one (kind and value)
				if e1 == nil && e2 == nil {
					if c1, c2 := fmt.Sprintf("%#v", dp1.Consts), fmt.Sprintf("%#v", dp2.Consts); c1 != c2 {
						return fw.Failf("re-dump has the file's constants: "+fw.Trunc(c1, 300), "%s", fw.Trunc(c2, 300))
					}
				}
			}
			fw.TallyOutcome("corpus-file-ok")
			fw.TallyNontrivial()
			return nil
		})
	}
	return fw.Failf("corpus entry exists", "missing %s", c.Name)
}}

// handAssembled: files the compiler never produces.
func handAssembled() map[string]*bc.Prog {
	m := map[string]*bc.Prog{}
	mk := func(name string, consts []any, code ...byte) {
		m[name] = &bc.Prog{Major: 1, Minor: 1, Name: name, Code: code, Consts: consts, Positions: instrPositions(code)}
	}
	// terminating LOOP and NOP
	mk("loop-nop", nil, bc.JUMP, 0, 4, bc.NOP, bc.TRUE, bc.PRINT, bc.RET, bc.LOOP, 0, 7)
	// negative int, bool and nil constants
	mk("const-kinds", []any{int64(-42), true, false, nil, 2.5, "s", int64(-9223372036854775808), int64(9223372036854775807)},
		bc.CONST, 0, bc.PRINT, bc.CONST, 1, bc.PRINT, bc.CONST, 2, bc.PRINT, bc.CONST, 3, bc.PRINT, bc.CONST, 4, bc.PRINT,
		bc.CONST, 5, bc.PRINT, bc.CONST, 6, bc.PRINT, bc.CONST, 7, bc.PRINT, bc.RET)
	// `false` after constants of every other kind (an encoder that leaves a byte of the previous item behind)
	mk("false-after-each-kind", []any{"str", false, 2.5, false, int64(300), false, true, false, nil, false, int64(-1), false},
		bc.CONST, 1, bc.PRINT, bc.CONST, 3, bc.PRINT, bc.CONST, 5, bc.PRINT, bc.CONST, 7, bc.PRINT, bc.CONST, 9, bc.PRINT, bc.CONST, 11, bc.PRINT,
		bc.CONST, 0, bc.PRINT, bc.CONST, 6, bc.PRINT, bc.RET)
	// minor version 0
	p0 := &bc.Prog{Major: 1, Minor: 0, Name: "minor0", Code: []byte{bc.ONE, bc.PRINT, bc.RET}, Positions: []int{1, 2, 3}}
	m["minor0"] = p0
	// 2- and 3-byte operand indices: 2300 constants, CONST 241 (F1 01) and CONST 2288 (F9 00 00)
	big := make([]any, 2300)
	for i := range big {
		big[i] = int64(i)
	}
	code := []byte{bc.CONST}
	code = bc.PutUvarint(code, 241)
	code = append(code, bc.PRINT, bc.CONST)
	code = bc.PutUvarint(code, 2288)
	code = append(code, bc.PRINT, bc.RET)
	mk("wide-operands", big, code...)
	// jump operands with the top bit set (0x8001 forward over NOPs) and the maximum 0xFFFF
	for _, dist := range []int{0x8001, 0xFFFF} {
		// FALSE; JFALSE dist; NOP x dist; PRINT; RET  — the jump lands exactly on PRINT (prints "false")
		code := []byte{bc.FALSE, bc.JFALSE, byte(dist >> 8), byte(dist)}
		code = append(code, bytes.Repeat([]byte{bc.NOP}, dist)...)
		code = append(code, bc.PRINT, bc.RET)
		mk(fmt.Sprintf("wide-jump-%x", dist), nil, code...)
	}
	// every opcode in one program
	mk("all-opcodes", []any{"blk", "nm", "f", int64(7)},
		bc.NOP, bc.DEFBLOCK, 0, 1, bc.CONST, 3, bc.SETFIELD, 2, bc.POP, bc.GETFIELD, 2, bc.ONE, bc.ADD, bc.ZERO, bc.SUB, bc.ONE, bc.MUL, bc.ONE, bc.DIV,
		bc.NEG, bc.UNPLUS, bc.NOT, bc.NOT, bc.TRUE, bc.EQ, bc.FALSE, bc.EQ, bc.NIL, bc.EQ, bc.PRINT,
		bc.ONE, bc.ZERO, bc.LT, bc.PRINT, bc.ONE, bc.ZERO, bc.GT, bc.JFALSE, 0, 1, bc.NOP, bc.PRINT,
		bc.ENDBLOCK, bc.ONE, bc.GETLOCAL, 0, bc.SETLOCAL, 0, bc.POPN, 2, bc.BIND, 0, 0x11, bc.BIND, 0, 0x2F, bc.RET)
	return m
}

func recordCorpus(args []string) int {
	force := len(args) > 0 && args[0] == "--force"
	appendOnly := len(args) > 0 && args[0] == "--append"
	if _, err := os.Stat(corpusPath()); err == nil && !force && !appendOnly {
		fmt.Println("corpus exists; use --append to add missing scaled/hand-assembled files, --force to overwrite")
		return 1
	}
	var entries []corpusEntry
	have := map[string]bool{}
	if appendOnly {
		entries = append(entries, loadCorpus()...)
		for _, e := range entries {
			have[e.Name] = true
		}
	}
	add := func(name, src string, raw []byte) {
		if have[name] || (appendOnly && strings.HasPrefix(name, "K")) {
			return // recorded files are never rewritten
		}
		got, err := impl.LoadExec(raw)
		if err != nil {
			fmt.Println("skip", name, err)
			return
		}
		// cross-validate the recording with the independent decoder + reference VM
		dp, derr := bc.Decode(raw)
		if derr != nil {
			fmt.Println("skip (decoder)", name, derr)
			return
		}
		rv := bc.Run(dp, 1<<22)
		if rv.Internal == "" && rv.Unspecified == "" {
			if a, b := refVMSummary(dp, rv), implSummary(got, dp.Lfs); a != b {
				fmt.Printf("NOT recorded (reference VM disagrees) %s:\n  %s\n  %s\n", name, a, b)
				return
			}
		}
		entries = append(entries, corpusEntry{Name: name, Bcb: base64.StdEncoding.EncodeToString(raw), Expect: got.Summary(), Src: fw.Trunc(src, 300)})
	}
	for i, src := range gen.Core() {
		if excluded(src) {
			continue
		}
		if d, ok := dumpOf(src); ok {
			add(fmt.Sprintf("K%04d", i), src, d)
		}
	}
	for _, s := range gen.ScaledFamilies(false) {
		if d, ok := dumpOf(s.Src); ok && len(d) < 20000 {
			add("S-"+s.Name, "", d)
		}
	}
	for name, p := range handAssembled() {
		add("H-"+name, "", p.Encode())
	}
	os.MkdirAll(filepath.Dir(corpusPath()), 0o755)
	b, _ := json.MarshalIndent(entries, "", " ")
	os.WriteFile(corpusPath(), b, 0o644)
	fmt.Printf("recorded %d files (%d bytes)\n", len(entries), len(b))
	return 0
}

func init() {
	fw.Commands["record-corpus"] = recordCorpus
	fw.Register(&fw.Check{
		ID:    "C14",
		Level: "model_checking",
		Rule: "(0) c14.longloop: a hand-assembled countdown loop (GETLOCAL JFALSE POP GETLOCAL ONE SUB SETLOCAL POP LOOP) of 0..15 million rounds (thorough 250 million): small counts against the reference VM, large ones against the closed form; (a) every file of the recorded corpus corpus/v1_1 (dumps of the accepted programs of K and S written by the pinned build, plus hand-assembled files: every opcode incl. NOP and a terminating LOOP, negative/extreme ints, bool and nil constants, minor version 0, 2- and 3-byte operand indices) is loaded and executed by the real code and must reproduce the recorded output/blocks/binding/error; " +
			"(b) all instruction sequences of length <=L (quick 4, thorough 5) over a 38-instruction alphabet with an 8-constant pool, assembled by the independent encoder, filtered by the verifier, executed by the real LoadProg+Execute and by the reference VM (pinned opcode numbers) — results must agree; " +
			"(c) the dump of every accepted program of K, S and the C02-C04 enumerations is decoded by the independent decoder (documented layout, pinned numbers), re-encoded byte-identically, and re-executed by the reference VM to the same result as the real execution. distinct_nontrivial = files/sequences/programs actually compared.",
		Subs:           []*fw.Sub{subC14Dec, subC14Seq, subC14File, subC14Loop},
		BudgetQuick:    100,
		BudgetThorough: 1500,
		Assumptions:    []string{"the corpus was recorded by the build pinned for this task (after the Dump/Load repairs) and cross-validated against the reference VM at recording time"},
		Run: func(c *fw.Ctx) {
			corpus := loadCorpus()
			if len(corpus) == 0 {
				c.Infra("recorded corpus missing: %s", corpusPath())
			}
			for _, lc := range c14LoopCases(c.Thorough()) {
				c.Do(subC14Loop, lc)
			}
			for _, e := range corpus {
				c.Do(subC14File, &c14File{Name: e.Name})
			}
			c.Bound("corpus_files", len(corpus))
			// (b)
			maxL := 4
			if c.Thorough() {
				maxL = 5
			}
			for n := 1; n <= maxL; n++ {
				idx := make([]int, n)
				for {
					if idx[0]%c.NShards == c.Shard%len(c14Alphabet) || true {
						c.Do(subC14Seq, &c14Seq{Ops: append([]int{}, idx...)})
					}
					if c.Expired() {
						c.Cap(fmt.Sprintf("deadline during instruction sequences of length %d", n))
						return
					}
					k := n - 1
					for k >= 0 {
						idx[k]++
						if idx[k] < len(c14Alphabet) {
							break
						}
						idx[k] = 0
						k--
					}
					if k < 0 {
						break
					}
				}
				c.Bound("instruction_sequence_length_completed", n)
			}
			// (c)
			do := func(src, shard string) bool {
				c.Do(subC14Dec, &progCase{Src: src, Shard: shard})
				return !c.Expired()
			}
			for _, s := range gen.Core() {
				do(s, "")
			}
			for _, s := range gen.ScaledFamilies(c.Thorough()) {
				do(s.Src, "")
			}
			for _, id := range []string{"C04", "C03", "C02"} {
				sp := seqSpecs[id]
				if c.Quick() {
					sp.quickLen--
				}
				enumSeq(sp, c, do)
			}
			if c.Thorough() {
				enumC01(c, do)
			}
		},
		Finish: func(m *fw.Merged) []string {
			var v []string
			for _, o := range []string{"corpus-file-ok", "asm-ok", "asm-runtime-error", "decoded-and-reexecuted"} {
				if m.Outcomes[o] == 0 {
					v = append(v, "vacuous: outcome class never observed: "+o)
				}
			}
			m.Extra["corpus_files_replayed"] = m.Outcomes["corpus-file-ok"]
			m.Extra["assembled_sequences_executed"] = m.Outcomes["asm-ok"] + m.Outcomes["asm-runtime-error"]
			return v
		},
	})
	_ = bcl.Execute
}
