package checks

import (
	"bytes"
	"encoding/json"
	"fmt"
	"math"
	"reflect"
	"strconv"
	"strings"

	"github.com/wkhere/bcl"

	"verif/mc/fw"
	"verif/mc/impl"
)

// C05 — Unmarshal reproduces configuration values in Go structs.

// ---------------------------------------------------------------- shapes

type fieldSpec struct {
	Name string     `json:"name"`
	Kind string     `json:"kind"` // int float64 string bool struct
	Tag  string     `json:"tag,omitempty"`
	Sub  *shapeSpec `json:"sub,omitempty"`
}

type shapeSpec struct {
	Named  string      `json:"named,omitempty"` // name of a hand-declared named type, or "" (anonymous via reflect.StructOf)
	Fields []fieldSpec `json:"fields"`
}

// hand-declared named types (reflect.StructOf cannot make them)
type Tunnel struct {
	Name string
	Host string
	Port int
}
type FooBar struct {
	A1 float64
	Ab bool
}
type Extras struct{ MaxLatency float64 }
type WithNamedNested struct {
	Name   string
	X      int
	Extras Extras
}
type T9 struct {
	Ab string `bcl:"my_key"`
	X  int
}

var namedTypes = map[string]reflect.Type{
	"Tunnel": reflect.TypeOf(Tunnel{}), "FooBar": reflect.TypeOf(FooBar{}), "Extras": reflect.TypeOf(Extras{}),
	"WithNamedNested": reflect.TypeOf(WithNamedNested{}), "T9": reflect.TypeOf(T9{}),
}

func (s *shapeSpec) Type() reflect.Type {
	if s.Named != "" {
		return namedTypes[s.Named]
	}
	var fs []reflect.StructField
	for _, f := range s.Fields {
		var t reflect.Type
		switch f.Kind {
		case "int":
			t = reflect.TypeOf(0)
		case "float64":
			t = reflect.TypeOf(0.0)
		case "string":
			t = reflect.TypeOf("")
		case "bool":
			t = reflect.TypeOf(false)
		case "struct":
			t = f.Sub.Type()
		}
		sf := reflect.StructField{Name: f.Name, Type: t}
		if f.Tag != "" {
			sf.Tag = reflect.StructTag(`bcl:"` + f.Tag + `"`)
		}
		fs = append(fs, sf)
	}
	return reflect.StructOf(fs)
}

// specOfNamed derives the spec of a hand-declared type.
func specOfNamed(name string) *shapeSpec {
	t := namedTypes[name]
	s := &shapeSpec{Named: name}
	for i := 0; i < t.NumField(); i++ {
		f := t.Field(i)
		fs := fieldSpec{Name: f.Name, Tag: f.Tag.Get("bcl")}
		switch f.Type.Kind() {
		case reflect.Int:
			fs.Kind = "int"
		case reflect.Float64:
			fs.Kind = "float64"
		case reflect.String:
			fs.Kind = "string"
		case reflect.Bool:
			fs.Kind = "bool"
		case reflect.Struct:
			fs.Kind = "struct"
			fs.Sub = specOfNamed(f.Type.Name())
		}
		s.Fields = append(s.Fields, fs)
	}
	return s
}

// ---------------------------------------------------------------- values and rendering

var c05Ints = []int{0, 1, -1, math.MaxInt64, math.MinInt64, 42}
var c05Floats = []float64{0.0, math.Copysign(0, -1), 2.5, 2.0, math.MaxFloat64, 5e-324, -1e21}
var c05Strings = []string{"", "a", "q\"b\\c", "l1\nl2\tt", "\x00é€", " # ; ", "C:\\tmp\\", "\\", "\"", "'`\r", "2.5", "true"}
var c05Bools = []bool{false, true}

// largest per-kind value alphabet (value indices are taken modulo the kind's own alphabet size)
const c05MaxAlpha = 12

func litInt(x int) string {
	switch {
	case x == math.MinInt64:
		return "-9223372036854775807 - 1"
	case x < 0:
		return "-" + strconv.Itoa(-x)
	}
	return strconv.Itoa(x)
}

func litFloat(f float64) string {
	neg := math.Signbit(f)
	s := strconv.FormatFloat(math.Abs(f), 'g', -1, 64)
	if !strings.ContainsAny(s, ".e") {
		s += ".0"
	}
	if neg {
		return "-" + s
	}
	return s
}

// spellings of a Go field name admitted by the matching rule (equal ignoring case and underscores)
func spellings(name string) []string {
	low := strings.ToLower(name)
	out := []string{low, strings.ToUpper(name), name}
	// snake: underscore before each upper-case letter or digit run that follows a lower-case letter
	var sn strings.Builder
	for i, r := range name {
		if i > 0 && (r >= 'A' && r <= 'Z' || r >= '0' && r <= '9') {
			sn.WriteByte('_')
		}
		sn.WriteRune(r)
	}
	out = append(out, strings.ToLower(sn.String()))
	// an underscore at every inner position, one at a time, and at both ends
	for i := 1; i < len(low); i++ {
		out = append(out, low[:i]+"_"+low[i:])
	}
	out = append(out, "_"+low, low+"_", strings.Join(strings.Split(low, ""), "_"))
	seen := map[string]bool{}
	var uniq []string
	for _, s := range out {
		if !seen[s] && s != "" && !isKeyword(s) {
			seen[s] = true
			uniq = append(uniq, s)
		}
	}
	return uniq
}

func isKeyword(s string) bool {
	switch s {
	case "var", "def", "eval", "print", "bind", "true", "false", "nil", "not", "and", "or", "NAME":
		return true
	}
	return false
}

// valueChoice picks, per leaf field (depth-first order), an index into its value alphabet,
// and per field an index into its key spellings.
type c05Case struct {
	Shape   shapeSpec `json:"shape"`
	Vals    []int     `json:"vals"`
	Spell   []int     `json:"spell"`
	BlockTy string    `json:"block_type"`
	BName   string    `json:"block_name"`
	Slice   int       `json:"slice"` // -1: struct binding; n>=0: slice binding with n blocks
}

func (c *c05Case) Key() string {
	sh, _ := json.Marshal(c.Shape)
	return fmt.Sprintf("%s|%v|%v|%s|%q|%d", sh, c.Vals, c.Spell, c.BlockTy, c.BName, c.Slice)
}

func (c *c05Case) ShardKey() string {
	sh, _ := json.Marshal(c.Shape)
	return string(sh)
}

type builder struct {
	vals, spell []int
	vi, si      int
}

func (b *builder) nextVal(n int) int {
	k := 0
	if b.vi < len(b.vals) {
		k = b.vals[b.vi] % n
	}
	b.vi++
	return k
}
func (b *builder) nextSpell(n int) int {
	k := 0
	if b.si < len(b.spell) {
		k = b.spell[b.si] % n
	}
	b.si++
	return k
}

// build fills v (a struct value of the shape) and writes the body of the block.
func (b *builder) build(s *shapeSpec, v reflect.Value, name string, salt int, sb *strings.Builder, indent string) {
	for i, f := range s.Fields {
		fv := v.Field(i)
		if f.Name == "Name" && f.Kind == "string" {
			fv.SetString(name)
			continue
		}
		sp := spellings(f.Name)
		k0 := b.nextSpell(len(sp))
		key := sp[k0]
		// a key equal to a sibling's tag would belong to that sibling (tag precedence): pick the next spelling
		for off := 0; off < len(sp); off++ {
			key = sp[(k0+off)%len(sp)]
			clash := false
			for j, g := range s.Fields {
				if j != i && g.Tag == key {
					clash = true
				}
			}
			if !clash {
				break
			}
		}
		if f.Tag != "" {
			key = f.Tag
		}
		switch f.Kind {
		case "int":
			x := c05Ints[(b.nextVal(len(c05Ints))+salt)%len(c05Ints)]
			fv.SetInt(int64(x))
			fmt.Fprintf(sb, "%s%s = %s\n", indent, key, litInt(x))
		case "float64":
			x := c05Floats[(b.nextVal(len(c05Floats))+salt)%len(c05Floats)]
			fv.SetFloat(x)
			fmt.Fprintf(sb, "%s%s = %s\n", indent, key, litFloat(x))
		case "string":
			x := c05Strings[(b.nextVal(len(c05Strings))+salt)%len(c05Strings)]
			fv.SetString(x)
			fmt.Fprintf(sb, "%s%s = %s\n", indent, key, strconv.Quote(x))
		case "bool":
			x := c05Bools[(b.nextVal(len(c05Bools))+salt)%len(c05Bools)]
			fv.SetBool(x)
			fmt.Fprintf(sb, "%s%s = %v\n", indent, key, x)
		case "struct":
			// nested block: its type is the key; named nested struct types must match it too
			inner := ""
			hasName := false
			for _, sf := range f.Sub.Fields {
				if sf.Name == "Name" && sf.Kind == "string" {
					hasName = true
				}
			}
			if i := strings.Index(key, "."); i > 0 && f.Tag != "" {
				// a dotted tag designates one particular nested block: type.name (the name may hold , ; spaces and dots)
				inner = key[i+1:]
				fmt.Fprintf(sb, "%sdef %s %q {\n", indent, key[:i], inner)
			} else if hasName {
				// names with dots: the key of a nested block is type.name, cut at the first dot
				inner = []string{"in0", "v1.2", "x.", ".y", "a.b.c"}[(salt+b.vi)%5]
				fmt.Fprintf(sb, "%sdef %s %q {\n", indent, key, inner)
			} else {
				fmt.Fprintf(sb, "%sdef %s {\n", indent, key)
			}
			b.build(f.Sub, fv, inner, salt, sb, indent+"\t")
			fmt.Fprintf(sb, "%s}\n", indent)
		}
	}
}

// prefill puts a stale value into every string / int / float / bool field, recursively.
func prefill(v reflect.Value) {
	switch v.Kind() {
	case reflect.Struct:
		for i := 0; i < v.NumField(); i++ {
			if v.Field(i).CanSet() {
				prefill(v.Field(i))
			}
		}
	case reflect.String:
		v.SetString("stale")
	case reflect.Int:
		v.SetInt(777)
	case reflect.Float64:
		v.SetFloat(7.77)
	case reflect.Bool:
		v.SetBool(true)
	}
}

func canonValue(v reflect.Value) string {
	switch v.Kind() {
	case reflect.Struct:
		var s []string
		for i := 0; i < v.NumField(); i++ {
			s = append(s, v.Type().Field(i).Name+":"+canonValue(v.Field(i)))
		}
		return "{" + strings.Join(s, " ") + "}"
	case reflect.Slice:
		if v.IsNil() {
			return "nil-slice"
		}
		var s []string
		for i := 0; i < v.Len(); i++ {
			s = append(s, canonValue(v.Index(i)))
		}
		return "[" + strings.Join(s, " ") + "]"
	case reflect.Float64:
		return fmt.Sprintf("f%x", math.Float64bits(v.Float()))
	case reflect.String:
		return strconv.Quote(v.String())
	default:
		return fmt.Sprint(v.Interface())
	}
}

func c05Exec(cs fw.Case) *fw.Fail {
	c := cs.(*c05Case)
	return fw.Guard(func() *fw.Fail {
		t := c.Shape.Type()
		hasName := false
		for _, f := range c.Shape.Fields {
			if f.Name == "Name" && f.Kind == "string" {
				hasName = true
			}
		}
		bname := c.BName
		if !hasName {
			bname = ""
		}
		var src strings.Builder
		var want, target reflect.Value
		b := &builder{vals: c.Vals, spell: c.Spell}
		writeBlock := func(v reflect.Value, name string, salt int) {
			if name != "" {
				fmt.Fprintf(&src, "def %s %q {\n", c.BlockTy, name)
			} else {
				fmt.Fprintf(&src, "def %s {\n", c.BlockTy)
			}
			bb := *b
			bb.build(&c.Shape, v, name, salt, &src, "\t")
			src.WriteString("}\n")
		}
		if c.Slice < 0 {
			want = reflect.New(t)
			writeBlock(want.Elem(), bname, 0)
			src.WriteString("def other_type { zz = 1 }\n")
			fmt.Fprintf(&src, "bind %s -> struct\n", c.BlockTy)
			target = reflect.New(t)
			// the target already holds other values (a configuration reloaded into the same struct): every field
			// the text sets, and the Name of an unnamed block, replace them
			prefill(target.Elem())
		} else {
			st := reflect.SliceOf(t)
			want = reflect.New(st)
			want.Elem().Set(reflect.MakeSlice(st, c.Slice, c.Slice))
			for i := 0; i < c.Slice; i++ {
				nm := ""
				if hasName {
					nm = fmt.Sprintf("%s%d", bname, i)
					if c.Slice >= 3 && i == c.Slice-1 {
						nm = bname + "0" // the last element repeats the first one's name
					}
					if bname == "" {
						nm = ""
					}
				}
				writeBlock(want.Elem().Index(i), nm, i)
				src.WriteString("def other_type { zz = 1 }\n")
			}
			if c.Slice == 0 {
				// no block of the type: bind is a runtime error; nothing to round-trip
				return nil
			}
			fmt.Fprintf(&src, "bind %s:all -> slice\n", c.BlockTy)
			target = reflect.New(st)
			// previous elements must be discarded
			pre := reflect.MakeSlice(st, 3, 3)
			if t.NumField() > 0 && pre.Index(0).Field(0).Kind() == reflect.Int {
				pre.Index(0).Field(0).SetInt(777)
			}
			target.Elem().Set(pre)
		}
		var out, log bytes.Buffer
		err := impl.Unmarshal(src.String(), target.Interface(), bcl.OptOutput(&out), bcl.OptLogger(&log))
		if err != nil {
			return fw.Failf("Unmarshal succeeds for\n"+src.String(), "error: %v (log %q)", err, log.String())
		}
		if w, g := canonValue(want.Elem()), canonValue(target.Elem()); w != g {
			return fw.Failf("target deeply equal to the written value "+w+" for\n"+src.String(), "%s", g)
		}
		// the file variant must fill a second, pre-filled target identically
		if c.Slice >= 0 || len(c.Vals)%3 == 0 {
			t2 := reflect.New(target.Elem().Type())
			if c.Slice >= 0 {
				t2.Elem().Set(reflect.MakeSlice(target.Elem().Type(), 2, 5))
			}
			txt := src.String()
			script := impl.Chunks(len(txt)/3, len(txt)/3)
			if len(c.Vals)%2 == 1 {
				// the last piece arrives together with io.EOF
				script = []impl.Answer{{N: len(txt) / 2}, {N: len(txt) - len(txt)/2, Err: "EOF"}}
			}
			ferr := bcl.UnmarshalFile(impl.NewScriptFile(txt, script), t2.Interface(), bcl.OptOutput(&out), bcl.OptLogger(&log))
			if ferr != nil {
				return fw.Failf("UnmarshalFile succeeds for\n"+txt, "error: %v (log %q)", ferr, log.String())
			}
			if w, g := canonValue(want.Elem()), canonValue(t2.Elem()); w != g {
				return fw.Failf("UnmarshalFile: target deeply equal to the written value "+w+" for\n"+txt, "%s", g)
			}
		}
		// reload into the target just filled, from a text in which every block omits its first field: the
		// previous elements must be discarded, so the omitted fields are zero afterwards
		if c.Slice >= 1 && t.NumField() > 0 {
			var src2 strings.Builder
			want2 := reflect.New(want.Elem().Type())
			want2.Elem().Set(reflect.MakeSlice(want.Elem().Type(), c.Slice, c.Slice))
			for i := 0; i < c.Slice; i++ {
				var body strings.Builder
				bb := *b
				nm := want.Elem().Index(i).FieldByName("Name")
				name := ""
				if nm.IsValid() && nm.Kind() == reflect.String {
					name = nm.String()
				}
				bb.build(&c.Shape, want2.Elem().Index(i), name, i, &body, "\t")
				lines := strings.SplitAfter(body.String(), "\n")
				// drop the first top-level scalar assignment, if the body starts with one
				if len(lines) > 1 && !strings.Contains(lines[0], "def ") && len(c.Shape.Fields) > 0 {
					first := 0
					for fi, f := range c.Shape.Fields {
						if !(f.Name == "Name" && f.Kind == "string") {
							first = fi
							break
						}
					}
					if c.Shape.Fields[first].Kind != "struct" {
						lines = lines[1:]
						fv := want2.Elem().Index(i).Field(first)
						fv.Set(reflect.Zero(fv.Type()))
					}
				}
				if name != "" {
					fmt.Fprintf(&src2, "def %s %q {\n", c.BlockTy, name)
				} else {
					fmt.Fprintf(&src2, "def %s {\n", c.BlockTy)
				}
				src2.WriteString(strings.Join(lines, ""))
				src2.WriteString("}\n")
			}
			fmt.Fprintf(&src2, "bind %s:all -> slice\n", c.BlockTy)
			if err := impl.Unmarshal(src2.String(), target.Interface(), bcl.OptOutput(&out), bcl.OptLogger(&log)); err != nil {
				return fw.Failf("second Unmarshal into the same slice succeeds for\n"+src2.String(), "error: %v", err)
			}
			if w, g := canonValue(want2.Elem()), canonValue(target.Elem()); w != g {
				return fw.Failf("previous elements discarded: after reloading\n"+src2.String()+"the target is "+w, "%s", g)
			}
		}
		fw.TallyOutcome(fmt.Sprintf("roundtrip-ok-slice=%v", c.Slice >= 0))
		fw.TallyNontrivial()
		return nil
	})
}

var subC05 = &fw.Sub{Name: "c05.roundtrip", New: func() fw.Case { return &c05Case{} }, Exec: c05Exec}

// blockTypeFor gives the spellings of the block type admissible for a shape.
func blockTypesFor(s *shapeSpec) []string {
	if s.Named == "" {
		return []string{"blk", "any_thing"}
	}
	return spellings(s.Named)
}

func countLeaves(s *shapeSpec) (vals, keys int) {
	for _, f := range s.Fields {
		if f.Name == "Name" && f.Kind == "string" {
			continue
		}
		keys++
		if f.Kind == "struct" {
			v, k := countLeaves(f.Sub)
			vals += v
			keys += k
		} else {
			vals++
		}
	}
	return
}

func c05Shapes(thorough bool) []shapeSpec {
	var out []shapeSpec
	kinds := []string{"int", "float64", "string", "bool", "struct"}
	inner := []*shapeSpec{
		{Fields: []fieldSpec{{Name: "X", Kind: "int"}}},
		{Fields: []fieldSpec{{Name: "Name", Kind: "string"}, {Name: "MaxLatency", Kind: "float64"}}},
		{Fields: []fieldSpec{{Name: "Ab", Kind: "string"}, {Name: "In", Kind: "struct", Sub: &shapeSpec{Fields: []fieldSpec{{Name: "Deep", Kind: "bool"}, {Name: "Name", Kind: "string"}}}}}},
		specOfNamed("Extras"),
	}
	// nested blocks designated by a dotted tag whose name part holds a comma, a space, dots
	for _, tag := range []string{"in.v1", "endpoint.eu-west,backup", "in.a.b", "in.x y;z", "srv.a,b.c"} {
		// (the nested struct has a Name field: a named block cannot be stored without one)
		sub := &shapeSpec{Fields: []fieldSpec{{Name: "Deep", Kind: "bool"}, {Name: "Name", Kind: "string"}}}
		out = append(out, shapeSpec{Fields: []fieldSpec{{Name: "Ab", Kind: "string"}, {Name: "Sub", Kind: "struct", Sub: sub, Tag: tag}, {Name: "Name", Kind: "string"}}})
		out = append(out, shapeSpec{Fields: []fieldSpec{{Name: "Sub", Kind: "struct", Sub: sub, Tag: tag}, {Name: "X", Kind: "int"}}})
	}
	// wide blocks inside wide blocks (8, 9, 10, 17 keys at each level; scratch space sized for "a few" keys)
	for _, w := range []int{8, 9, 10, 17} {
		for _, v := range []int{1, 8, 9, 10, 17} {
			mk := func(prefix string, n int) []fieldSpec {
				var fs []fieldSpec
				for i := 0; i < n; i++ {
					fs = append(fs, fieldSpec{Name: fmt.Sprintf("%s%d", prefix, i), Kind: []string{"int", "string", "bool", "float64"}[i%4]})
				}
				return fs
			}
			innermost := &shapeSpec{Fields: mk("H", v)}
			mid := &shapeSpec{Fields: append(mk("G", v-1), fieldSpec{Name: "Deeper", Kind: "struct", Sub: innermost})}
			outer := append(mk("F", w-1), fieldSpec{Name: "In", Kind: "struct", Sub: mid})
			out = append(out, shapeSpec{Fields: outer})
		}
	}
	nameSets := [][]string{{"X"}, {"Ab"}, {"FooBar"}, {"A1"}, {"Type"}, {"Type", "Namex"}, {"X", "Ab"}, {"FooBar", "A1"}, {"Ab", "X"}, {"X", "Ab", "FooBar"}, {"A1", "FooBar", "X"}}
	for _, names := range nameSets {
		k := len(names)
		idx := make([]int, k)
		for {
			for _, tagMode := range []int{0, 1, 2} {
				if tagMode == 2 && k < 2 {
					continue
				}
				for innerIdx := range inner {
					usesStruct := false
					dupNamed := false
					usedNames := map[string]bool{}
					var fs []fieldSpec
					for i, n := range names {
						f := fieldSpec{Name: n, Kind: kinds[idx[i]]}
						if f.Kind == "struct" {
							usesStruct = true
							f.Sub = inner[innerIdx]
							if f.Sub.Named != "" {
								f.Name = f.Sub.Named // a named nested type must match the nested block type = the key
							}
						}
						switch tagMode {
						case 1:
							if i == 0 && f.Kind != "struct" {
								f.Tag = "k_" + strings.ToLower(n)
							}
						case 2:
							// the second field's tag is the lower-case name of the first: tag takes precedence
							if i == 1 && f.Kind != "struct" {
								f.Tag = strings.ToLower(names[0])
							}
						}
						if usedNames[f.Name] {
							dupNamed = true
						}
						usedNames[f.Name] = true
						fs = append(fs, f)
					}
					if (!usesStruct && innerIdx > 0) || dupNamed {
						continue
					}
					// Name field: absent, or at each index
					out = append(out, shapeSpec{Fields: fs})
					for pos := 0; pos <= len(fs); pos++ {
						if !thorough && pos != 0 && pos != len(fs) {
							continue
						}
						withName := append(append(append([]fieldSpec{}, fs[:pos]...), fieldSpec{Name: "Name", Kind: "string"}), fs[pos:]...)
						out = append(out, shapeSpec{Fields: withName})
					}
				}
			}
			i := k - 1
			for i >= 0 {
				idx[i]++
				if idx[i] < len(kinds) {
					break
				}
				idx[i] = 0
				i--
			}
			if i < 0 {
				break
			}
		}
	}
	for n := range namedTypes {
		out = append(out, *specOfNamed(n))
	}
	return out
}

func init() {
	fw.Register(&fw.Check{
		ID:    "C05",
		Level: "model_checking",
		Rule: "struct shapes: <=3 fields of kinds int/float64/string/bool/nested struct (4 inner shapes, nesting <=2, named and anonymous struct types) over 9 name sets, 3 tagging modes (none, tagged, a tag equal to another field's name: precedence), Name absent or at every index, plus hand-declared named types, nested blocks designated by dotted tags whose name part holds commas / spaces / dots, and wide shapes (8/9/10/17 keys at each of three nesting levels); " +
			"per shape: every value vector over per-kind alphabets (6 ints incl. extremes, 7 floats incl. -0.0/MaxFloat64/5e-324, 10 strings needing escapes (quotes, trailing backslash, control characters), 2 bools) with the canonical key spelling, every key spelling (case patterns, an underscore at every position) with one value vector, every admissible block-type spelling for named types, struct binding and slice binding of 1..3 blocks into a pre-filled slice. " +
			"Also: slices of 1..400 seven-field structs (more than 241 and 2288 constants), three distinct local types of the same name unmarshalled in every order, and a reload into the filled slice from a text that omits a field (previous elements discarded). Oracle: the value is rendered as BCL text, Unmarshal must return nil and the target must equal the written value (floats by bit pattern).",
		Subs:           []*fw.Sub{subC05, subC05Local, subC05Big},
		BudgetQuick:    100,
		BudgetThorough: 1500,
		Assumptions:    []string{"anonymous struct types are built with reflect.StructOf; named types are a hand-declared set", "keys never collide by construction (collisions are C15/C16)"},
		Run: func(c *fw.Ctx) {
			for _, ord := range [][]int{{0}, {1}, {2}, {0, 1}, {1, 0}, {0, 2}, {2, 0}, {1, 2}, {2, 1}, {0, 1, 2}, {2, 1, 0}, {1, 0, 2}, {0, 0, 1, 1}, {2, 2, 0}} {
				c.Do(subC05Local, &c05Local{Order: ord})
			}
			for _, n := range []int{1, 30, 39, 40, 41, 42, 60, 100, 380, 400} {
				c.Do(subC05Big, &c05Big{N: n})
			}
			shapes := c05Shapes(c.Thorough())
			c.Bound("shapes", len(shapes))
			for si := range shapes {
				sh := shapes[si]
				shKey, _ := json.Marshal(sh)
				if !c.Mine(string(shKey)) {
					continue
				}
				nv, nk := countLeaves(&sh)
				bts := blockTypesFor(&sh)
				do := func(vals, spell []int, bt, bn string, slice int) {
					c.Do(subC05, &c05Case{Shape: sh, Vals: append([]int{}, vals...), Spell: append([]int{}, spell...), BlockTy: bt, BName: bn, Slice: slice})
				}
				// all value vectors (alphabet sizes up to 7) for <=2 leaves (thorough <=3); for more leaves
				// every single-leaf variation of three base vectors (each-choice) plus the diagonals
				if nv <= 2 || (nv == 3 && c.Thorough()) {
					vals := make([]int, nv)
					for {
						do(vals, nil, bts[0], "nm", -1)
						i := nv - 1
						for i >= 0 {
							vals[i]++
							if vals[i] < c05MaxAlpha {
								break
							}
							vals[i] = 0
							i--
						}
						if i < 0 {
							break
						}
					}
				} else {
					for base := 0; base < 3; base++ {
						for leaf := 0; leaf < nv; leaf++ {
							for x := 0; x < c05MaxAlpha; x++ {
								vals := make([]int, nv)
								for i := range vals {
									vals[i] = base
								}
								vals[leaf] = x
								do(vals, nil, bts[0], "nm", -1)
							}
						}
					}
					for x := 0; x < c05MaxAlpha; x++ {
						vals := make([]int, nv)
						for i := range vals {
							vals[i] = (x + i) % c05MaxAlpha
						}
						do(vals, nil, bts[0], "nm", -1)
					}
				}
				// all key spellings (up to 12 per field) with one value vector
				maxSp := 12
				if nk > 2 {
					maxSp = 5
				}
				if nk > 3 {
					maxSp = 2
				}
				if nk > 6 {
					maxSp = 1
				}
				spell := make([]int, nk)
				for nk > 0 {
					do([]int{1, 2, 1, 1, 2, 1}, spell, bts[0], "", -1)
					i := nk - 1
					for i >= 0 {
						spell[i]++
						if spell[i] < maxSp {
							break
						}
						spell[i] = 0
						i--
					}
					if i < 0 {
						break
					}
				}
				for _, bt := range bts {
					do([]int{2, 1, 2}, nil, bt, "n", -1)
				}
				for n := 1; n <= 3; n++ {
					do([]int{1, 2, 3}, nil, bts[0], "e", n)
					do([]int{0, 0, 0}, []int{1, 1, 1}, bts[len(bts)-1], "", n)
				}
				if c.Expired() {
					return
				}
			}
		},
		Finish: func(m *fw.Merged) []string {
			var v []string
			if m.Outcomes["roundtrip-ok-slice=true"] == 0 || m.Outcomes["roundtrip-ok-slice=false"] == 0 {
				v = append(v, "vacuous: struct or slice binding never round-tripped")
			}
			return v
		},
	})
}

// ---------------------------------------------------------------- same-named local types, big slices

type c05Local struct {
	Order []int `json:"order"` // indices of the local Rec types unmarshalled in this order in one process state
}

func (c *c05Local) Key() string { return fmt.Sprint(c.Order) }

var c05RecTexts = []struct {
	src  string
	want string
}{
	{"def rec { x = 1; b = \"s\" }\nbind rec -> struct", "{A:1 B:\"s\"}"},
	{"def rec { b = \"t\"; y = 2; x = 3 }\nbind rec -> struct", "{B:\"t\" C:2 A:3}"},
	{"def rec { x = 4; b = 5 }\nbind rec -> struct", "{X:4 Y:5}"},
}

var subC05Local = &fw.Sub{Name: "c05.localtypes", New: func() fw.Case { return &c05Local{} }, Exec: func(cs fw.Case) *fw.Fail {
	c := cs.(*c05Local)
	return fw.Guard(func() *fw.Fail {
		for _, k := range c.Order {
			t := c15RecTargets[k]()
			var out, log bytes.Buffer
			if err := impl.Unmarshal(c05RecTexts[k].src, t, bcl.OptOutput(&out), bcl.OptLogger(&log)); err != nil {
				return fw.Failf("Unmarshal into local type #"+fmt.Sprint(k)+" succeeds (order "+fmt.Sprint(c.Order)+")", "%v", err)
			}
			if g := canonValue(reflect.ValueOf(t).Elem()); g != c05RecTexts[k].want {
				return fw.Failf("local type #"+fmt.Sprint(k)+" holds "+c05RecTexts[k].want+" (order "+fmt.Sprint(c.Order)+")", "%s", g)
			}
		}
		fw.TallyOutcome("localtypes-ok")
		fw.TallyNontrivial()
		return nil
	})
}}

type c05Big struct {
	N int `json:"n"` // number of blocks bound into a slice (six scalar fields each: > 241 constants from N = 40)
}

func (c *c05Big) Key() string { return fmt.Sprint(c.N) }

type BigRec struct {
	Name string
	A    int
	B    float64
	C    string
	D    bool
	E    int
	F    string
}

var subC05Big = &fw.Sub{Name: "c05.bigslice", New: func() fw.Case { return &c05Big{} }, Exec: func(cs fw.Case) *fw.Fail {
	c := cs.(*c05Big)
	return fw.Guard(func() *fw.Fail {
		var src strings.Builder
		want := make([]BigRec, c.N)
		for i := range want {
			want[i] = BigRec{Name: fmt.Sprintf("n%d", i), A: 1000 + i, B: float64(i) + 0.5, C: fmt.Sprintf("c%d", i), D: i%2 == 0, E: -i, F: strings.Repeat("f", i%7)}
			fmt.Fprintf(&src, "def big_rec %q {\n a = %d\n b = %s\n c = %q\n d = %v\n e = %s\n f = %q\n}\n", want[i].Name, want[i].A, litFloat(want[i].B), want[i].C, want[i].D, litInt(want[i].E), want[i].F)
		}
		src.WriteString("bind big_rec:all -> slice\n")
		var got []BigRec
		var out, log bytes.Buffer
		if err := impl.Unmarshal(src.String(), &got, bcl.OptOutput(&out), bcl.OptLogger(&log)); err != nil {
			return fw.Failf(fmt.Sprintf("Unmarshal of %d blocks succeeds", c.N), "%v (log %q)", err, fw.Trunc(log.String(), 200))
		}
		if !reflect.DeepEqual(got, want) {
			for i := range want {
				if i >= len(got) || got[i] != want[i] {
					return fw.Failf(fmt.Sprintf("element %d of %d = %+v", i, c.N, want[i]), "%d elements; element %d = %+v", len(got), i, func() any {
						if i < len(got) {
							return got[i]
						}
						return nil
					}())
				}
			}
		}
		fw.TallyOutcome("bigslice-ok")
		fw.TallyNontrivial()
		return nil
	})
}}
