package checks

import (
	"bytes"
	"fmt"
	"strings"

	"github.com/wkhere/bcl"

	"verif/mc/impl"

	"verif/mc/fw"
	"verif/mc/gen"
	"verif/mc/ref"
)

// deepFieldPrograms: nested blocks to depth d; every subset of levels assigns the field f
// (a distinct value per level) before opening the next level; the innermost level reads it,
// and every level reads it again after its child closed. Exhaustive over assignment patterns.
func deepFieldPrograms(maxDepth int, do func(string)) {
	for d := 1; d <= maxDepth; d++ {
		for mask := 0; mask < 1<<d; mask++ {
			for _, late := range []bool{false, true} {
				var sb strings.Builder
				for lv := 0; lv < d; lv++ {
					fmt.Fprintf(&sb, "def b%d { ", lv)
					if mask&(1<<lv) != 0 && !late {
						fmt.Fprintf(&sb, "f = %d; ", lv+1)
					}
				}
				sb.WriteString("g = f; print f; ")
				for lv := d - 1; lv >= 0; lv-- {
					sb.WriteString("}; ")
					if lv > 0 {
						if mask&(1<<(lv-1)) != 0 && late {
							fmt.Fprintf(&sb, "f = %d; ", lv)
						}
						sb.WriteString("print f; ")
					}
				}
				do(sb.String())
			}
		}
	}
}

// builtinLikeFields: fields and variables whose names resemble the block builtins TYPE / NAME.
func builtinLikeFields(do func(string)) {
	for _, id := range []string{"name", "type", "Name", "Type", "tYPE", "names", "TYPES", "NAME_", "_TYPE", "TYPE", "NAME"} {
		do(fmt.Sprintf("def b \"nm\" { %s = 1; print %s; print NAME; print TYPE; def c { print %s; %s = 2; print %s }; print %s }", id, id, id, id, id, id))
		do(fmt.Sprintf("def b \"nm\" { print %s }", id))
		do(fmt.Sprintf("var %s = 3; def b \"nm\" { print %s; %s = 4; var %s = %s + 1; print %s }; print %s", id, id, id, id, id, id, id))
		do(fmt.Sprintf("def b \"nm\" { var %s = %s; print %s }", id, id, id))
		do(fmt.Sprintf("def b { %s = NAME + TYPE; print %s + \"|\" + NAME }", id, id))
	}
}

// seqCheck registers a check whose space is "all statement sequences up to a length
// over an alphabet", judged by the reference-model oracle.
type seqSpec struct {
	id, rule          string
	alpha             []gen.Sym
	quickLen, thorLen int
	maxNest           int
	sub               *fw.Sub
	mustSee           []string
	budgetQ, budgetT  int
	extra             func(c *fw.Ctx, do func(src string))
	moreSubs          []*fw.Sub
	moreRun           func(c *fw.Ctx)
	assumptions       []string
}

var seqSpecs = map[string]seqSpec{}

// enumSeq enumerates the statement sequences of a spec (also used by C10, C14).
func enumSeq(s seqSpec, c *fw.Ctx, do func(src, shard string) bool) {
	if s.extra != nil {
		s.extra(c, func(src string) { do(src, "") })
	}
	maxLen := s.quickLen
	if c.Thorough() {
		maxLen = s.thorLen
	}
	// iterative deepening so that a deadline leaves a completed bound
	for L := 1; L <= maxLen; L++ {
		ok := gen.Sequences(s.alpha, L, s.maxNest, "; ", c.Mine, func(prog, shard string) int {
			if !do(prog, shard) {
				return gen.SeqStop
			}
			// a compile-time rejection is absorbing: every extension shares the offending
			// prefix and is rejected with the same first diagnostic
			if _, diag := ref.Parse(prog); diag != nil {
				c.Count("rejected_prefixes_not_extended", 1)
				return gen.SeqNoExtend
			}
			return gen.SeqExtend
		})
		if !ok {
			c.Cap(fmt.Sprintf("%s: deadline during sequences of length %d", s.id, L))
			return
		}
		c.Bound(s.id+"_sequence_length_completed", L)
	}
	c.Bound(s.id+"_alphabet_size", len(s.alpha))
	c.Bound(s.id+"_max_nesting", s.maxNest)
}

func registerSeq(s seqSpec) {
	seqSpecs[s.id] = s
	fw.Register(&fw.Check{
		ID: s.id, Level: "model_checking", Rule: s.rule, Subs: append([]*fw.Sub{s.sub}, s.moreSubs...),
		BudgetQuick: s.budgetQ, BudgetThorough: s.budgetT, Assumptions: s.assumptions,
		Run: func(c *fw.Ctx) {
			if s.moreRun != nil {
				s.moreRun(c)
			}
			enumSeq(s, c, func(src, shard string) bool {
				c.Do(s.sub, &progCase{Src: src, Shard: shard})
				return !c.Expired()
			})
		},
		Finish: func(m *fw.Merged) []string {
			var v []string
			for _, o := range s.mustSee {
				if m.Outcomes[o] == 0 {
					v = append(v, "vacuous: outcome class never observed: "+o)
				}
			}
			return v
		},
	})
}

func both(s string) gen.Sym    { return gen.Sym{Top: s, In: s} }
func evalTop(s string) gen.Sym { return gen.Sym{Top: "eval " + s, In: s} }
func inOnly(s string) gen.Sym  { return gen.Sym{In: s} }
func topOnly(s string) gen.Sym { return gen.Sym{Top: s} }

func init() {
	// C02 — lexical scoping and state flow of variables versus fields
	registerSeq(seqSpec{
		id: "C02",
		rule: "explicit enumeration of all statement sequences up to length L (quick 6, thorough 7; sequences whose prefix is rejected at compile time are not extended, rejection being absorbing) over a 22-symbol alphabet of declarations (with/without initializer, self-referencing initializer), " +
			"assignments (plain, nested in sub-expressions, chained), reads, block open/close with two names x,y and nesting <=3; every sequence is closed and executed by the real Interpret and by the reference evaluator " +
			"(scope chain of maps). Compared: printed values, Block fields, compile-diagnostic class and position, runtime-error class and position. A state is a statement sequence (path in the reference model's transition system); every path is replayed on the implementation.",
		sub: newRefSub("c02.seq"),
		alpha: []gen.Sym{
			both("var x"), both("var y = 1"), both("var x = 1"), both("var y = x"), both("var x = x + 1"), both("var y = (x = 2) + 1"),
			// an assignment to the very name being declared, inside its initializer: it means the outer x (or a field, or nothing)
			both("var x = 10 + (x = 3)"),
			evalTop("x = 1"), evalTop("x = x + 1"), evalTop("y = x"), evalTop("x = (y = 2) + 1"), evalTop("y = y + 1"), evalTop("x = y = 3"),
			both("print x"), both("print y"), both("print (x = 5) + x"),
			inOnly("eval y = x"),
			{Top: "def a {", In: "def a {", Delta: 1}, {Top: "def b \"n\" {", In: "def b \"n\" {", Delta: 1}, {In: "}", Delta: -1},
			both("var y"), both("print x + y"),
		},
		quickLen: 6, thorLen: 7, maxNest: 3, budgetQ: 100, budgetT: 1500,
		mustSee: []string{"accepted-ok", "rejected:undefined", "rejected:redeclared", "accepted-rterr:unresolved", "accepted-rterr:types"},
		extra: func(c *fw.Ctx, do func(string)) {
			deepFieldPrograms(5, do)
			builtinLikeFields(do)
			// many variables: slots and constants whose number needs 1, 2 or 3 operand bytes, and slot
			// numbers that coincide with opcode numbers
			for _, sc := range gen.ScaledFamilies(false) {
				if strings.HasPrefix(sc.Name, "locals-") || strings.HasPrefix(sc.Name, "opbyte-") || strings.HasPrefix(sc.Name, "vars-") || strings.HasPrefix(sc.Name, "constpool-bind") {
					do(sc.Src)
				}
			}
			for _, s := range gen.KeywordIdents() {
				do(s)
			}
			for _, s := range gen.ScopeExit() {
				do(s)
			}
			for _, s := range gen.CollidingNames() {
				do(s)
			}
			for _, s := range gen.ChildAsField() {
				do(s)
			}
			// a second, focused transition system: short-circuit operators whose skipped operand assigns, reads right behind
			// assignments, a variable that shadows a field it was initialised from - at top level, in a block, and in a block
			// behind K live locals (K around 24 / 32 / 64 / 256: whatever the compiler starts doing once there are many)
			stm := []string{"var x = 7", "var y = 0", "var x = x + 1", "eval x or (y = 1)", "eval x and (y = 2)", "eval (y = 3) or x", "eval y = x", "eval x = y",
				"print x", "print y", "eval x = 4", "print x + y", "eval y = (x = 5) and y", "eval x or (x = 6)",
				// a name whose first mention sits in an operand that a literal left operand makes dead
				"eval false and z", "eval 1 or (z = 1)", "z = 3", "print z"}
			var seqs []string
			var rec func(prefix string, n int)
			rec = func(prefix string, n int) {
				if prefix != "" {
					seqs = append(seqs, prefix)
				}
				if n == 0 {
					return
				}
				for _, st := range stm {
					rec(prefix+st+"\n", n-1)
				}
			}
			rec("", 3)
			locals := func(k int) string {
				var b strings.Builder
				for i := 0; i < k; i++ {
					fmt.Fprintf(&b, "var p%d = %d\n", i, i)
				}
				return b.String()
			}
			for _, sq := range seqs {
				do(sq)
				do("def a {\nx = 1\n" + sq + "}\n")
				for _, k := range []int{22, 23, 24, 25, 33} {
					do("def a {\nx = 1\ny = 2\n" + locals(k) + sq + "print p0 + p" + fmt.Sprint(k-1) + "\n}\n")
				}
				if strings.Count(sq, "\n") <= 2 {
					for _, k := range []int{15, 16, 17, 31, 32, 63, 64, 65, 100, 127, 128, 129, 255, 256, 257, 500} {
						do("def a {\nx = 1\n" + locals(k) + sq + "}\n")
						do(locals(k) + "def a {\ny = 2\n" + sq + "}\n")
					}
				}
			}
			// shadowing to depth 8 and name reuse between variables and fields
			for d := 1; d <= 8; d++ {
				src := "var x = 0; "
				for i := 1; i <= d; i++ {
					src += fmt.Sprintf("def a { print x; var x = x + %d; f%d = x; x = x * 2; print x; ", i, i)
				}
				for i := 0; i < d; i++ {
					src += "}; print x; "
				}
				do(src)
			}
		},
		assumptions: []string{"two variable names and nesting <=3 (small-scope hypothesis); >1024 locals is C06's concern"},
	})

	// C03 — result blocks mirror the definitions in the source
	var a3 []gen.Sym
	for _, t := range []string{"a", "b"} {
		for _, n := range []string{"", ` "n"`, ` "m"`, ` ""`, ` "n."`, ` "n\\"`} {
			s := "def " + t + n + " {"
			a3 = append(a3, gen.Sym{Top: s, In: s, Delta: 1})
		}
	}
	a3 = append(a3, gen.Sym{In: "}", Delta: -1})
	for _, f := range []string{"x", "y"} {
		for _, v := range []string{"1", "2.5", `"s"`, "x"} {
			a3 = append(a3, inOnly(f+" = "+v))
		}
	}
	a3 = append(a3, both("var x = 1"), both(`var y = "v"`), inOnly("print TYPE"), inOnly("print NAME"), inOnly("print x"),
		inOnly("a = 1"), both("print 1/0"), topOnly("bind a -> struct"), topOnly("bind b:all -> slice"))
	registerSeq(seqSpec{
		id: "C03",
		rule: "explicit enumeration of all statement sequences up to length L (quick 5, thorough 6) over a 30-symbol alphabet: def of 2 types x 6 name forms (none, two names, empty, a name ending in a dot, a name ending in a backslash), close, field assignments (2 fields x 4 values incl. re-assignment and self-reference), " +
			"variables, TYPE/NAME/field reads, a field named like a child type, a runtime error, two bind statements (which must not disturb the result); nesting <=3. The []Block returned by the real Interpret (order, Type, Name, Fields with dynamic types, children keyed type / type.name, no variables), " +
			"the duplicate-child runtime error and the blocks returned alongside a runtime error are compared with the reference evaluator.",
		sub: newRefSub("c03.seq"), alpha: a3,
		extra: func(c *fw.Ctx, do func(string)) {
			deepFieldPrograms(5, do)
			builtinLikeFields(do)
			// fields that hold nil / false / 0 / "" are fields: read back in their own block, from a child, and shadowing an outer one
			for _, v := range []string{"nil", "false", "0", `""`, "0.0"} {
				do("def a { x = " + v + "; y = x; z = x == " + v + " }\ndef later { ok = 1 }")
				do("def a { x = 1; def b { x = " + v + "; y = x; def c { w = x } }; u = x }\ndef later { ok = 1 }")
				do("def a { x = " + v + "; def b { y = x; x = 2; t = x }; u = x }")
			}
			do(`def b "nm" { NAME = "label"; id = NAME; print NAME; def TYPE {}; print TYPE; t = TYPE }`)
			do(`def b "nm" { def NAME "x" {}; def in { print NAME; print TYPE; TYPE = 3; y = TYPE } }`)
			for _, sc := range gen.ScaledFamilies(false) {
				if strings.HasPrefix(sc.Name, "manyblocks-") || strings.HasPrefix(sc.Name, "constpool-bind") || strings.HasPrefix(sc.Name, "nest") || strings.HasPrefix(sc.Name, "stackdepth") || strings.HasPrefix(sc.Name, "atlimit") {
					do(sc.Src)
				}
			}
			// identifiers that begin with a keyword, as block types, names, fields and variables
			for _, s := range gen.KeywordIdents() {
				do(s)
			}
			for _, s := range gen.ChildAsField() {
				do(s)
			}
		},
		quickLen: 5, thorLen: 6, maxNest: 3, budgetQ: 100, budgetT: 1500,
		mustSee:     []string{"accepted-ok", "accepted-rterr:dupchild", "accepted-rterr:divzero", "accepted-rterr:unresolved"},
		assumptions: []string{"a closed child block is read through its key like any field; printing it, its truth value, operators on it, and assigning a field under a closed child's key are left open by the documentation and excluded"},
	})

	// C04 — the bind statement selects exactly the designated blocks
	var a4 []gen.Sym
	a4 = append(a4, topOnly("def a { i = 1 }"), topOnly("def a \"k\" { i = 2 }"), topOnly("def b { i = 3 }"))
	for _, sel := range []string{"", ":1", ":first", ":last", ":all"} {
		for _, tgt := range []string{"struct", "slice"} {
			a4 = append(a4, topOnly("bind a"+sel+" -> "+tgt))
		}
	}
	a4 = append(a4, topOnly("bind b -> struct"), topOnly("bind c -> struct"), topOnly("bind b:all -> slice"),
		topOnly("bind a:2 -> struct"), topOnly("bind a:foo -> slice"), topOnly("bind a -> oops"), topOnly("print 1/0"),
		topOnly("def c { bind a -> slice }"), topOnly("def c { def a { i = 9 } }"),
		// a type that differs from `a` only in letter case, and selectors that merely evaluate to 1
		topOnly("def A { i = 4 }"), topOnly("bind A -> struct"), topOnly("bind a:01 -> struct"), topOnly("bind a:0x1 -> slice"),
		// selector and target words in each other's place
		topOnly("bind a:struct -> slice"), topOnly("bind a -> first"), topOnly("bind a:slice -> all"),
		// a block of another type whose FIELDS are called TYPE / NAME and hold the bound type's name: still not an `a`
		topOnly("def c { TYPE = \"a\"; NAME = \"n\"; i = 7 }"))
	registerSeq(seqSpec{
		id: "C04",
		rule: "explicit enumeration of all toplevel statement sequences up to length L (quick 5, thorough 6; rejected prefixes are not extended) over a 31-symbol alphabet: three distinguishable block definitions of two types, a block of a third type with fields named TYPE / NAME, bind with every selector (none, 1, first, last, all) x target (struct, slice), " +
			"bind of another / of a missing type, the compile-error forms (:all->struct, :2, :foo, ->oops), a bind inside a block, a block of the bound type nested inside another block (must not be selected), a runtime error. Compared with a trivial reference: binding kind and exact blocks, runtime-error class, rejection, one warning per bind after the first, nil binding without bind. " +
			"c04.warn: every sequence of 2-3 bind statements (6 forms) after three blocks, run as Interpret, Parse+Execute twice, Dump+LoadProg+Execute, Execute with trace/statistics into a writer of their own, and with a log writer that fails / accepts one byte per write: same blocks, binding, error, and the same warnings on the log writer.",
		sub: newRefSub("c04.seq"), alpha: a4,
		moreSubs: []*fw.Sub{subC04Kept, subC04Warn},
		moreRun: func(c *fw.Ctx) {
			// every sequence of 2-3 bind statements after three blocks, run along every way a program can be run
			binds := []string{"bind a:first -> struct", "bind a:all -> slice", "bind b -> struct", "bind a:last -> slice", "bind a -> struct", "bind zz -> struct"}
			for _, b1 := range binds {
				for _, b2 := range binds {
					c.Do(subC04Warn, &progCase{Src: c04WarnPre + b1 + "\n" + b2})
					for _, b3 := range binds {
						c.Do(subC04Warn, &progCase{Src: c04WarnPre + b1 + "\nprint 1\n" + b2 + "\n" + b3})
					}
				}
			}
			// many bind statements in one run: each one after the first warns, however many there are
			for _, nb := range []int{4, 5, 9, 10, 11, 12, 13, 14, 20, 33, 65, 100, 129, 257, 1000} {
				c.Do(subC04Warn, &progCase{Src: c04WarnPre + strings.Repeat("bind a:first -> struct\nbind b -> struct\n", nb/2) + strings.Repeat("bind a:last -> slice\n", nb%2)})
			}
			n := len(c04KeptProgs)
			for a := 0; a < n; a++ {
				for b := 0; b < n; b++ {
					c.Do(subC04Kept, &c04Kept{Order: []int{a, b}})
					for d := 0; d < n; d++ {
						c.Do(subC04Kept, &c04Kept{Order: []int{a, b, d}})
					}
				}
			}
		},
		extra: func(c *fw.Ctx, do func(string)) {
			// bind statements whose block-type constant has index >= 241 (2- and 3-byte operands)
			for _, s := range gen.ScaledFamilies(false) {
				if strings.HasPrefix(s.Name, "constpool-bind") {
					do(s.Src)
				}
			}
			// a bind statement directly behind an instruction whose slot operand needs two bytes: every slot 236..520 read,
			// assigned and copied right before the bind (whatever walks the code must step over multi-byte operands)
			var vars strings.Builder
			for i := 0; i < 521; i++ {
				fmt.Fprintf(&vars, "var v%d=%d\n", i, i)
			}
			pre := vars.String() + "def t { x = 1 }\n"
			for sl := 236; sl <= 520; sl++ {
				if c.Quick() && sl > 300 && sl%8 != 0 && sl%256 > 2 {
					continue
				}
				do(pre + fmt.Sprintf("print v%d\nbind t -> struct\n", sl))
				do(pre + fmt.Sprintf("eval v%d = 7\nbind t -> struct\n", sl))
				do(pre + fmt.Sprintf("var w = v%d\nbind t -> struct\nbind t -> slice\n", sl))
			}
		},
		quickLen: 5, thorLen: 6, maxNest: 1, budgetQ: 100, budgetT: 1500,
		mustSee: []string{"accepted-ok", "accepted-rterr:bind-none", "accepted-rterr:bind-count", "rejected:all-needs-slice", "rejected:selector", "rejected:target"},
	})
}

// ---------------------------------------------------------------- C04: warnings of repeated binds on every execution path

const c04WarnPre = "def a { x = 1 }\ndef a \"n\" { x = 2 }\ndef b { y = 1 }\n"

// failWriter fails every write; shortWriter accepts one byte per write without an error.
type failWriter struct{ n int }

func (w *failWriter) Write(p []byte) (int, error) {
	w.n++
	return 0, fmt.Errorf("log writer is closed")
}

type shortWriter struct{ buf bytes.Buffer }

func (w *shortWriter) Write(p []byte) (int, error) {
	if len(p) == 0 {
		return 0, nil
	}
	w.buf.WriteByte(p[0])
	return 1, nil
}

// c04.warn: the outcome of Interpret (blocks, binding, error, warnings on the log writer) is the baseline;
// the same program run as Parse+Execute, executed twice, dumped+loaded+executed, executed with trace and
// statistics into separate writers, or with a log writer that fails or accepts short writes, must give the
// same blocks, binding and error, and (where the log writer works) the same warnings on the log writer.
var subC04Warn = &fw.Sub{Name: "c04.warn", New: func() fw.Case { return &progCase{} }, Exec: func(cs fw.Case) *fw.Fail {
	c := cs.(*progCase)
	return fw.Guard(func() *fw.Fail {
		base := impl.Interpret(c.Src)
		want := fmt.Sprintf("err=%q blocks=%s binding=%s", base.ErrText(), impl.BlocksStr(base.Blocks), impl.BindingStr(base.Binding))
		sum := func(bl []bcl.Block, bi bcl.Binding, err error) string {
			return fmt.Sprintf("err=%q blocks=%s binding=%s", impl.Ran{Err: err}.ErrText(), impl.BlocksStr(bl), impl.BindingStr(bi))
		}
		differs := func(what, got, log string, checkLog bool) *fw.Fail {
			if got != want {
				return fw.Failf(what+": same blocks, binding and error as Interpret: "+fw.Trunc(want, 300), "%s", fw.Trunc(got, 300))
			}
			if checkLog && log != base.Log {
				return fw.Failf(what+fmt.Sprintf(": the log writer receives the same warnings as with Interpret: %q", base.Log), "%q", log)
			}
			return nil
		}
		// two steps, twice
		var out, log bytes.Buffer
		p, err := bcl.Parse([]byte(c.Src), "input", bcl.OptOutput(&out), bcl.OptLogger(&log))
		if err != nil {
			fw.TallyOutcome("rejected")
			return nil
		}
		if log.Len() > 0 {
			return fw.Failf("nothing on the log writer before the program runs", "Parse wrote %q", log.String())
		}
		for i := 0; i < 2; i++ {
			log.Reset()
			bl, bi, xerr := bcl.Execute(p)
			if f := differs(fmt.Sprintf("Parse + Execute (execution %d)", i+1), sum(bl, bi, xerr), log.String(), true); f != nil {
				return f
			}
		}
		// dumped and loaded
		var dmp bytes.Buffer
		if derr := p.Dump(&dmp); derr == nil {
			var out2, log2 bytes.Buffer
			if q, lerr := bcl.LoadProg(&dmp, "input", bcl.OptOutput(&out2), bcl.OptLogger(&log2)); lerr == nil {
				bl, bi, xerr := bcl.Execute(q)
				if f := differs("Dump + LoadProg + Execute", sum(bl, bi, xerr), log2.String(), true); f != nil {
					return f
				}
			}
		}
		// every bind that runs after the first one warns: a program that ends without an error has one warning less than binds
		if base.Err == nil {
			if nb, nw := strings.Count("\n"+c.Src, "\nbind "), strings.Count(base.Log, "WARNING"); nb > 0 && nw != nb-1 {
				return fw.Failf(fmt.Sprintf("%d bind statements ran: %d warnings on the log writer", nb, nb-1), "%d warnings: %s", nw, fw.Trunc(base.Log, 300))
			}
		}
		// loaded (exported Load) into a Prog that held and ran another program with other bind statements
		for _, usedSrc := range []string{"def b { y = 1 }\nbind b -> struct\n", "def q { }\ndef a { }\nprint 1\n", c04WarnPre + "bind zz -> slice\n"} {
			var uout, ulog bytes.Buffer
			used, uerr := bcl.Parse([]byte(usedSrc), "used", bcl.OptOutput(&uout), bcl.OptLogger(&ulog))
			var d2 bytes.Buffer
			if uerr != nil || p.Dump(&d2) != nil {
				continue
			}
			bcl.Execute(used)
			if lerr := used.Load(&d2); lerr != nil {
				return fw.Failf("Load into a used Prog", "%v", lerr)
			}
			ulog.Reset()
			bl, bi, xerr := bcl.Execute(used)
			if f := differs("Load into a Prog that held and ran another program with other bind statements + Execute", sum(bl, bi, xerr), ulog.String(), true); f != nil {
				return f
			}
		}
		// trace / statistics with a writer of their own
		for mask := 1; mask < 4; mask++ {
			log.Reset()
			var xout bytes.Buffer
			bl, bi, xerr := bcl.Execute(p, bcl.OptTrace(mask&1 != 0), bcl.OptStats(mask&2 != 0), bcl.OptOutput(&xout))
			if f := differs(fmt.Sprintf("Execute(trace=%v stats=%v)", mask&1 != 0, mask&2 != 0), sum(bl, bi, xerr), log.String(), true); f != nil {
				return f
			}
		}
		// a log writer that fails, and one that takes a byte at a time: warnings never make the run fail
		fwr := &failWriter{}
		bl, bi, xerr := bcl.Interpret([]byte(c.Src), bcl.OptOutput(&bytes.Buffer{}), bcl.OptLogger(fwr))
		if f := differs("Interpret with a log writer that fails every write", sum(bl, bi, xerr), "", false); f != nil {
			return f
		}
		swr := &shortWriter{}
		bl, bi, xerr = bcl.Interpret([]byte(c.Src), bcl.OptOutput(&bytes.Buffer{}), bcl.OptLogger(swr))
		if f := differs("Interpret with a log writer that accepts one byte per write", sum(bl, bi, xerr), "", false); f != nil {
			return f
		}
		if strings.Contains(base.Log, "WARNING") {
			fw.TallyOutcome("warned")
		} else {
			fw.TallyOutcome("no-warning")
		}
		fw.TallyNontrivial()
		return nil
	})
}}

// ---------------------------------------------------------------- C04: a returned Binding stays what it was

var c04KeptProgs = []string{
	"def s \"a\" { v = 1 }\ndef t { w = 0 }\ndef s \"b\" { v = 2 }\nbind s:all -> slice",
	"def t \"x\" { v = 10 }\ndef t \"y\" { v = 20 }\ndef t \"z\" { v = 30 }\nbind t:all -> slice",
	"def s { v = 5 }\ndef s { v = 6 }\nbind s:last -> slice",
	"def u { v = 7 }\nbind u -> struct",
	"def s { v = 8 }\ndef s { v = 9 }\nbind s:first -> slice\nbind s:all -> slice",
}

type c04Kept struct {
	Order []int `json:"order"`
}

func (c *c04Kept) Key() string { return fmt.Sprint(c.Order) }

// c04.kept: programs are interpreted one after the other; the Binding (and blocks) each one
// returned must still read the same after the later runs.
var subC04Kept = &fw.Sub{Name: "c04.kept", New: func() fw.Case { return &c04Kept{} }, Exec: func(cs fw.Case) *fw.Fail {
	c := cs.(*c04Kept)
	return fw.Guard(func() *fw.Fail {
		type kept struct {
			was string
			now func() string
		}
		var ks []kept
		for step, k := range c.Order {
			r := impl.Interpret(c04KeptProgs[k])
			bl, bi := r.Blocks, r.Binding
			snap := func() string { return "blocks=" + impl.BlocksStr(bl) + " binding=" + impl.BindingStr(bi) }
			ks = append(ks, kept{snap(), snap})
			for i, kp := range ks {
				if now := kp.now(); now != kp.was {
					return fw.Failf(fmt.Sprintf("the result returned by run %d stays what it was: %s", i, kp.was), "after run %d (order %v) it reads %s", step, c.Order, now)
				}
			}
		}
		fw.TallyOutcome("kept-binding-stable")
		fw.TallyNontrivial()
		return nil
	})
}}
