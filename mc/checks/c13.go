package checks

import (
	"bytes"
	"fmt"
	"io"
	"os"
	"strings"
	"testing/iotest"

	"github.com/wkhere/bcl"

	"verif/mc/bc"
	"verif/mc/fw"
	"verif/mc/gen"
	"verif/mc/impl"
)

// C13 — truncated bytecode is rejected with an error.
// Space: every accepted program of K ∪ S × every cut point of its dump × {whole, 1 byte/read};
// all 2^16 magic values and all 2^16 version pairs in front of a valid remainder.

type c13Cuts struct {
	Name string `json:"name"`
	Src  string `json:"src"`
	Mode string `json:"mode"` // whole | byte
	From int    `json:"from"`
	To   int    `json:"to"`
	// Stride>1: only section boundaries ±9, the first/last 64 cuts and every Stride-th cut
	Stride int `json:"stride"`
}

func (c *c13Cuts) Key() string {
	return fmt.Sprintf("%s|%s|%d-%d/%d", c.Name, c.Mode, c.From, c.To, c.Stride)
}

func (c *c13Cuts) ShardKey() string {
	if len(c.Src) < 3000 {
		return c.Name
	}
	return c.Key()
}

// dumpOf parses and dumps; ok=false if the program is not accepted (or Parse/Dump panics: C06/C09's business).
func dumpOf(src string) (d []byte, ok bool) {
	defer func() {
		if recover() != nil {
			d, ok = nil, false
		}
	}()
	p := impl.Parse(src)
	if p.Err != nil {
		return nil, false
	}
	d, err := impl.Dump(p.Prog)
	if err != nil {
		return nil, false
	}
	return d, true
}

func loadPrefix(d []byte, mode string) (err error, panicked string) {
	defer func() {
		if r := recover(); r != nil {
			panicked = fmt.Sprint(r)
		}
	}()
	var r = bytes.NewReader(d)
	switch mode {
	case "byte":
		_, err, _, _ = impl.Load(iotest.OneByteReader(r))
	case "disasm":
		// with the disassembly option on: a failed load must not be disassembled
		_, err, _, _ = impl.Load(r, bcl.OptDisasm(true), bcl.OptStats(true), bcl.OptTrace(true))
	case "filelike":
		// a reader that also has Close and Name, like *os.File
		_, err, _, _ = impl.Load(&fileLike{Reader: r})
	case "retry":
		// an interrupted load is followed by another attempt on the SAME Prog: the second load of the same
		// prefix fails again, and loading the complete dump succeeds and gives the complete program
		var p *bcl.Prog
		p, err, _, _ = impl.Load(r)
		if err == nil || p == nil {
			return err, ""
		}
		if err2 := p.Load(bytes.NewReader(d)); err2 == nil {
			return nil, ""
		}
		if c13Full != nil {
			if err3 := p.Load(bytes.NewReader(c13Full)); err3 != nil {
				return err, "after a truncated load, loading the complete dump into the same Prog fails: " + err3.Error()
			}
			var back bytes.Buffer
			if derr := p.Dump(&back); derr != nil || !bytes.Equal(back.Bytes(), c13Full) {
				return err, fmt.Sprintf("after a truncated load and a complete one, the Prog dumps %d bytes (err %v), not the %d loaded", back.Len(), derr, len(c13Full))
			}
		}
	default:
		_, err, _, _ = impl.Load(r)
	}
	return err, ""
}

// c13Full: the complete dump the current prefixes are cut from (for the retry mode)
var c13Full []byte

type fileLike struct {
	*bytes.Reader
	closed int
}

func (f *fileLike) Close() error { f.closed++; return nil }
func (f *fileLike) Name() string { return "input.bcb" }

var subC13Cuts = &fw.Sub{
	Name: "c13.cuts",
	New:  func() fw.Case { return &c13Cuts{} },
	Exec: func(cs fw.Case) *fw.Fail {
		c := cs.(*c13Cuts)
		d, ok := dumpOf(c.Src)
		if !ok {
			return nil
		}
		near := map[int]bool{}
		if c.Stride > 1 {
			if p, err := bc.Decode(d); err == nil {
				for _, s := range p.Sections {
					for k := -9; k <= 9; k++ {
						near[s+k] = true
					}
				}
			}
		}
		var firstBad string
		bad := 0
		n := 0
		c13Full = d
		defer func() { c13Full = nil }()
		for cut := c.From; cut < c.To && cut < len(d); cut++ {
			if c.Stride > 1 && !(near[cut] || cut < 64 || cut >= len(d)-64 || cut%c.Stride == 0) {
				continue
			}
			n++
			err, pan := loadPrefix(d[:cut], c.Mode)
			switch {
			case pan != "":
				bad++
				if firstBad == "" {
					firstBad = fmt.Sprintf("cut %d of %d: panic: %s", cut, len(d), pan)
					if strings.HasPrefix(pan, "after ") {
						firstBad = fmt.Sprintf("cut %d of %d: %s", cut, len(d), pan)
					}
				}
			case err == nil:
				bad++
				if firstBad == "" {
					firstBad = fmt.Sprintf("cut %d of %d: LoadProg returned nil error for a proper prefix", cut, len(d))
				}
			}
		}
		fw.Tally("loads", int64(n))
		fw.Tally("cut_points", int64(n))
		if n > 0 {
			fw.TallyNontrivial()
		}
		if bad > 0 {
			return &fw.Fail{Expected: "LoadProg(prefix) returns a non-nil error, no panic, for every cut point",
				Observed: fmt.Sprintf("%d of %d cut points fail; first: %s", bad, n, firstBad)}
		}
		// the full dump must load (so the prefixes are prefixes of a *valid* dump)
		if c.From == 0 {
			if err, pan := loadPrefix(d, c.Mode); err != nil || pan != "" {
				fw.TallyOutcome("full-dump-not-loadable")
				// C09's business; not a C13 violation
			} else {
				fw.TallyOutcome("full-dump-loads")
			}
		}
		fw.TallyOutcome("all-prefixes-rejected")
		return nil
	},
}

// openStream delivers data in pieces of per bytes and then stays open: a further Read would block forever,
// which is recorded (and answered with an error so that the caller comes back).
type openStream struct {
	data    []byte
	per     int
	pos     int
	blocked bool
}

func (s *openStream) Read(p []byte) (int, error) {
	if s.pos >= len(s.data) {
		s.blocked = true
		return 0, fmt.Errorf("this read would block forever")
	}
	n := s.per
	if n > len(p) {
		n = len(p)
	}
	if n > len(s.data)-s.pos {
		n = len(s.data) - s.pos
	}
	copy(p, s.data[s.pos:s.pos+n])
	s.pos += n
	return n, nil
}

type c13Header struct {
	Kind string `json:"kind"` // magic | version
	Hi   int    `json:"hi"`   // first byte; the second runs over 0..255
}

func (c *c13Header) Key() string { return fmt.Sprintf("%s|%d", c.Kind, c.Hi) }

const c13HeaderProg = `var a=1; def b "nm" { x = a+2.5; print "s"+x } bind b->struct`

var subC13Header = &fw.Sub{
	Name: "c13.header",
	New:  func() fw.Case { return &c13Header{} },
	Exec: func(cs fw.Case) *fw.Fail {
		c := cs.(*c13Header)
		d, ok := dumpOf(c13HeaderProg)
		if !ok {
			return &fw.Fail{Expected: "reference program accepted and dumped", Observed: "not accepted"}
		}
		d = append([]byte{}, d...)
		for lo := 0; lo < 256; lo++ {
			var accept bool
			if c.Kind == "magic" {
				d[0], d[1] = byte(c.Hi), byte(lo)
				accept = c.Hi == 0xFC && lo == 0x6C
			} else {
				d[2], d[3] = byte(c.Hi), byte(lo)
				accept = c.Hi == 1 && lo <= 1
			}
			if !accept {
				// the same header on a stream that stays open: once the four header bytes have been delivered the
				// loader must reject without asking for more (another Read would block forever)
				for _, per := range []int{4, 1, 2} {
					sr := &openStream{data: d[:4], per: per}
					_, err, _, _ := impl.Load(sr)
					fw.Tally("loads", 1)
					if sr.blocked {
						return fw.Failf("a bad header is rejected as soon as it has arrived", "%s %02x %02x (%d bytes per read): the loader asked for more input after the 4 header bytes; on a pipe or socket that stays open it would hang", c.Kind, c.Hi, lo, per)
					}
					if err == nil {
						return fw.Failf("error for wrong magic / unsupported version", "%s %02x %02x (open stream): loaded without error", c.Kind, c.Hi, lo)
					}
				}
			}
			// a bad header in front of a LONG file (longer than any read buffer), through a reader that has Close and Name
			// like *os.File and through a real file: rejected, and the call returns (a helper goroutine that is still
			// copying the file must not be waited for forever) — for the header values next to the valid ones
			if !accept && (lo <= 2 || lo == 0x6B || lo == 0x6D || lo == 0xFF) && (c.Hi <= 2 || c.Hi >= 0xFB) {
				for _, extra := range []int{4093, 5000, 70000} {
					long := append(append([]byte{}, d[:4]...), bytes.Repeat([]byte{0x6C}, extra)...)
					_, err, _, _ := impl.Load(&fileLike{Reader: bytes.NewReader(long)})
					fw.Tally("loads", 1)
					if err == nil {
						return fw.Failf("error for wrong magic / unsupported version", "%s %02x %02x in front of %d more bytes (file-like reader): loaded without error", c.Kind, c.Hi, lo, extra)
					}
					if tmp, terr := os.CreateTemp(fw.WorkDir(), "c13-*.bcb"); terr == nil {
						tmp.Write(long)
						tmp.Seek(0, io.SeekStart)
						_, err, _, _ = impl.Load(tmp)
						tmp.Close()
						os.Remove(tmp.Name())
						fw.Tally("loads", 1)
						if err == nil {
							return fw.Failf("error for wrong magic / unsupported version", "%s %02x %02x in front of %d more bytes (*os.File): loaded without error", c.Kind, c.Hi, lo, extra)
						}
					}
				}
			}
			for _, mode := range []string{"whole", "byte"} {
				err, pan := loadPrefix(d, mode)
				fw.Tally("loads", 1)
				if pan != "" {
					return fw.Failf("no panic", "%s %02x %02x (%s): panic %s", c.Kind, c.Hi, lo, mode, pan)
				}
				if accept && err != nil {
					// acceptance of valid files is C09's claim; here it only guards against vacuity
					fw.TallyOutcome("valid-header-rejected-" + mode)
					continue
				}
				if !accept && err == nil {
					return fw.Failf("error for wrong magic / unsupported version", "%s %02x %02x (%s): loaded without error", c.Kind, c.Hi, lo, mode)
				}
				if accept {
					fw.TallyOutcome("header-accepted")
				} else {
					fw.TallyOutcome("header-rejected")
				}
			}
		}
		fw.TallyNontrivial()
		return nil
	},
}

func init() {
	fw.Register(&fw.Check{
		ID:    "C13",
		Level: "fault_enumeration",
		Rule: "for every accepted program of the core corpus K and the scaled families S: every cut point 0..len-1 of its dump " +
			"(quick: all cuts for dumps <=4 kB, section boundaries ±9 / first+last 64 / every 97th for larger ones), delivered whole, one byte per read, whole with the disassembly/trace/statistics options on, through a reader that also has Close and Name (like *os.File), and followed by a retry on the same Prog (the prefix again, then the complete dump, which must load and dump back byte-identically); " +
			"all 2^16 magic values and 2^16 version pairs, each also on a stream that stays open after the four header bytes (delivered 4, 2 or 1 bytes per read): the loader must reject without asking for more input. A case is a (program, delivery, cut range); non-trivial = at least one load executed; " +
			"counters.cut_points counts the loads of proper prefixes.",
		Subs:           []*fw.Sub{subC13Cuts, subC13Header},
		BudgetQuick:    100,
		BudgetThorough: 1500,
		Assumptions:    []string{"crash points of a writer are byte boundaries of the dump (no reordering of bytes)"},
		Run: func(c *fw.Ctx) {
			for hi := 0; hi < 256; hi++ {
				c.Do(subC13Header, &c13Header{"magic", hi})
				c.Do(subC13Header, &c13Header{"version", hi})
			}
			type prog struct{ name, src string }
			var progs []prog
			for i, s := range gen.Core() {
				progs = append(progs, prog{fmt.Sprintf("K%d", i), s})
			}
			for _, s := range gen.ScaledFamilies(true) {
				if c.Quick() && len(s.Src) > 400000 && strings.HasPrefix(s.Name, "constpool-") {
					continue // pools of more than 65536 constants: thorough tier only (half a megabyte of dump each)
				}
				progs = append(progs, prog{"S:" + s.Name, s.Src})
			}
			const chunk = 2048
			for _, p := range progs {
				if c.Expired() {
					return
				}
				if !c.Mine(p.name) && len(p.src) < 3000 {
					// small programs: one worker does all; large ones are split by range over workers
					continue
				}
				d, ok := dumpOf(p.src)
				if !ok {
					continue
				}
				stride := 1
				if c.Quick() && len(d) > 4096 {
					stride = 97
				}
				if c.Thorough() && len(d) > 200000 {
					stride = 7
					c.Cap("dumps >200 kB: every 7th cut + section boundaries")
				}
				for _, mode := range []string{"whole", "byte", "disasm", "filelike", "retry"} {
					if mode != "whole" && mode != "byte" && len(d) > 20000 {
						continue
					}
					for from := 0; from < len(d); from += chunk {
						if c.Expired() {
							return
						}
						to := from + chunk
						c.Do(subC13Cuts, &c13Cuts{Name: p.name, Src: p.src, Mode: mode, From: from, To: to, Stride: stride})
					}
				}
			}
			c.Bound("cut_chunk", chunk)
		},
		Finish: func(m *fw.Merged) []string {
			var v []string
			if m.Counters["cut_points"] < 10000 {
				v = append(v, fmt.Sprintf("vacuous: only %d cut points explored", m.Counters["cut_points"]))
			}
			if m.Outcomes["header-accepted"] == 0 {
				v = append(v, "vacuous: no header variant was accepted, the remainder is not a valid dump")
			}
			m.Extra["cut_points"] = m.Counters["cut_points"]
			return v
		},
	})
}
