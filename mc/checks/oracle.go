package checks

import (
	"fmt"
	"github.com/wkhere/bcl"
	"regexp"
	"strconv"
	"strings"

	"verif/mc/fw"
	"verif/mc/impl"
	"verif/mc/ref"
)

// ---------------------------------------------------------------- parsing what the implementation prints

var diagRe = regexp.MustCompile(`^line (\d+):(\d+): error`)
var rtRe = regexp.MustCompile(`^runtime error: line (\d+):(\d+): (.*)$`)
var warnRe = regexp.MustCompile(`^WARNING: line (\d+):(\d+): (.*)$`)

type implDiag struct {
	Line, Col int
	Off       int
	OffOK     bool
	Rest      string // text after "error"
	Raw       string
}

// splitLog splits the log text into diagnostics and warnings; anything else is malformed.
func splitLog(src, log string) (diags []implDiag, warns []implDiag, malformed []string) {
	if log == "" {
		return
	}
	if !strings.HasSuffix(log, "\n") {
		malformed = append(malformed, "log does not end in newline")
	}
	lines := strings.Split(strings.TrimSuffix(log, "\n"), "\n")
	for i := 0; i < len(lines); i++ {
		l := lines[i]
		if m := diagRe.FindStringSubmatch(l); m != nil {
			d := implDiag{Raw: l, Rest: l[len(m[0]):]}
			d.Line, _ = strconv.Atoi(m[1])
			d.Col, _ = strconv.Atoi(m[2])
			d.Off, d.OffOK = ref.Offset(src, d.Line, d.Col)
			diags = append(diags, d)
			continue
		}
		if m := warnRe.FindStringSubmatch(l); m != nil {
			d := implDiag{Raw: l, Rest: m[3]}
			d.Line, _ = strconv.Atoi(m[1])
			d.Col, _ = strconv.Atoi(m[2])
			d.Off, d.OffOK = ref.Offset(src, d.Line, d.Col)
			warns = append(warns, d)
			continue
		}
		malformed = append(malformed, l)
	}
	return
}

var (
	rtRe0 = regexp.MustCompile(`^(\w+): invalid types: ([\w:.]+), ([\w:.]+)$`)
	rtRe1 = regexp.MustCompile(`^NEG: invalid type: ([\w:.]+), expected number$`)
	rtRe2 = regexp.MustCompile(`^UNPLUS: invalid type: ([\w:.]+), expected number$`)
	rtRe3 = regexp.MustCompile(`^identifier '(.*)' not resolved as var or field$`)
	rtRe4 = regexp.MustCompile(`^child (.*) duplicate at parent$`)
	rtRe5 = regexp.MustCompile(`^bind: no blocks of type (.*)$`)
	rtRe6 = regexp.MustCompile(`^bind: found (\d+) blocks of type (.*) but expected just 1$`)
)

// rtClass maps a runtime error message to the class vocabulary of the reference.
func rtClass(msg string) string {
	if m := rtRe0.FindStringSubmatch(msg); m != nil {
		fam := map[string]string{"ADD": "add", "SUB": "sub", "MUL": "mul", "DIV": "div", "LT": "ord", "GT": "ord", "EQ": "eq"}[m[1]]
		if fam == "" {
			fam = "?" + m[1]
		}
		return "types:" + fam + ":" + m[2] + "," + m[3]
	}
	if msg == "division by int zero" {
		return "divzero"
	}
	if m := rtRe1.FindStringSubmatch(msg); m != nil {
		return "neg:" + m[1]
	}
	if m := rtRe2.FindStringSubmatch(msg); m != nil {
		return "unplus:" + m[1]
	}
	if m := rtRe3.FindStringSubmatch(msg); m != nil {
		return "unresolved:" + m[1]
	}
	if m := rtRe4.FindStringSubmatch(msg); m != nil {
		return "dupchild:" + m[1]
	}
	if m := rtRe5.FindStringSubmatch(msg); m != nil {
		return "bind-none:" + m[1]
	}
	if m := rtRe6.FindStringSubmatch(msg); m != nil {
		return "bind-count:" + m[1] + ":" + m[2]
	}
	if strings.Contains(msg, "negative repeat count") {
		return "repeat-neg"
	}
	if strings.Contains(msg, "stack overflow") {
		return "stack-overflow"
	}
	if strings.Contains(msg, "too many nested blocks") {
		return "too-many-blocks"
	}
	return "other:" + msg
}

// ---------------------------------------------------------------- the differential oracle

type cmpInfo struct {
	Class string // accepted-ok | accepted-rterr | rejected | unspecified | limits
}

// tokenEndingAt finds the reference token that ends at off.
func tokenEndingAt(toks []ref.Tok, off int) (ref.Tok, bool) {
	for _, t := range toks {
		if t.End == off && t.Kind != ref.EOF {
			return t, true
		}
	}
	return ref.Tok{}, false
}

// checkDiagForm verifies one compile diagnostic against the source text.
func checkDiagForm(src string, toks []ref.Tok, lexfail *ref.LexFail, d implDiag) string {
	if !d.OffOK {
		return fmt.Sprintf("diagnostic position %d:%d is not a position of the source: %q", d.Line, d.Col, d.Raw)
	}
	switch {
	case strings.HasPrefix(d.Rest, " at end: "):
		if d.Off != len(src) {
			return fmt.Sprintf("'at end' reported at offset %d, source has %d bytes: %q", d.Off, len(src), d.Raw)
		}
		if len(d.Rest) == len(" at end: ") {
			return "empty message: " + d.Raw
		}
	case strings.HasPrefix(d.Rest, " at '"):
		t, ok := tokenEndingAt(toks, d.Off)
		if !ok {
			return fmt.Sprintf("no token ends at the reported offset %d: %q", d.Off, d.Raw)
		}
		want := " at '" + t.Text + "': "
		if !strings.HasPrefix(d.Rest, want) || len(d.Rest) == len(want) {
			return fmt.Sprintf("quoted token is not the source text %q ending at offset %d: %q", t.Text, d.Off, d.Raw)
		}
	case strings.HasPrefix(d.Rest, ": "):
		// lexical diagnostic: must sit at the lexical failure offset
		if lexfail == nil || d.Off != lexfail.Off {
			return fmt.Sprintf("diagnostic without token at offset %d but no lexical failure there: %q", d.Off, d.Raw)
		}
		if len(d.Rest) == 2 {
			return "empty message: " + d.Raw
		}
	default:
		return "malformed diagnostic: " + d.Raw
	}
	return ""
}

// heldRun: the results of the previous compareRun call, kept alive, with the text they showed when the caller was done with them.
var heldRun struct {
	blocks  []bcl.Block
	binding bcl.Binding
	want    string
	err     error
	errText string
}

// compareRun is the reference-model oracle: parse + run src on both sides and compare
// everything the properties make observable.
func compareRun(src string) (*fw.Fail, cmpInfo) {
	heldRun.want, heldRun.err = "", nil
	f, info := compareRun0(src)
	if f != nil || heldRun.want == "" {
		return f, info
	}
	// what the call returned belongs to the caller for good: a LATER, unrelated call (here: a small program with blocks, a
	// binding and, every other time, a run-time error) must not change the blocks, the binding or the error text
	probe := "def later_call \"p\" { q = 1; def kid { } }\ndef later_call { }\nbind later_call:first -> struct\n"
	if len(src)%2 == 1 {
		probe += "print 1 / 0\n"
	}
	impl.Interpret(probe)
	if got := impl.BlocksStr(heldRun.blocks) + " " + impl.BindingStr(heldRun.binding); got != heldRun.want {
		return fw.Failf("the blocks and binding a call returned are not changed by a later call", "after a later Interpret of another program they read %s", fw.Trunc(got, 300)), cmpInfo{"earlier-result-changed"}
	}
	if heldRun.err != nil && heldRun.err.Error() != heldRun.errText {
		return fw.Failf("the error a call returned keeps its text: "+fw.Trunc(heldRun.errText, 200), "after a later Interpret of another program it reads %q", fw.Trunc(heldRun.err.Error(), 200)), cmpInfo{"earlier-result-changed"}
	}
	return f, info
}

func compareRun0(src string) (*fw.Fail, cmpInfo) {
	prog, diag := ref.Parse(src)
	var res *ref.Result
	if diag == nil {
		res = ref.Run(prog)
		if strings.HasPrefix(res.Unspecified, "repetition") {
			// excluded by the properties themselves: the legitimate result would exhaust memory
			return nil, cmpInfo{"excluded:" + res.Unspecified}
		}
	}
	r := impl.Interpret(src)
	// what a call returned belongs to the caller: once it has been compared, every map in it is written to, so
	// that a map the library still shares (with another block, with a later call) shows up as a foreign key there
	defer func() {
		impl.Poison(r.Blocks, r.Binding)
		heldRun.blocks, heldRun.binding = r.Blocks, r.Binding
		heldRun.want = impl.BlocksStr(r.Blocks) + " " + impl.BindingStr(r.Binding)
		heldRun.err, heldRun.errText = r.Err, r.ErrText()
	}()
	toks, lexfail := ref.Lex(src)
	diags, warns, malformed := splitLog(src, r.Log)
	if len(malformed) > 0 {
		return fw.Failf("log holds only diagnostics and warnings of the documented form", "malformed log line %q", malformed[0]), cmpInfo{"malformed"}
	}
	if diag != nil {
		// rejected by the reference
		if r.Err == nil {
			return fw.Failf("rejected: "+diag.String(), "accepted: %s", r.Summary()), cmpInfo{"rejected"}
		}
		if r.Blocks != nil || r.Binding != nil {
			return fw.Failf("no results on rejection", "%s", r.Summary()), cmpInfo{"rejected"}
		}
		if len(diags) == 0 {
			return fw.Failf("at least one diagnostic on rejection", "log=%q err=%v", r.Log, r.Err), cmpInfo{"rejected"}
		}
		if r.Out != "" {
			return fw.Failf("nothing printed by a rejected program", "out=%q", r.Out), cmpInfo{"rejected"}
		}
		for _, d := range diags {
			if msg := checkDiagForm(src, toks, lexfail, d); msg != "" {
				return fw.Failf("diagnostic designates a token of the source", "%s", msg), cmpInfo{"rejected"}
			}
		}
		first := diags[0]
		okPos := first.Off == diag.Off || (diag.Alt != nil && first.Off == diag.Alt.Off)
		if !okPos {
			return fw.Failf(fmt.Sprintf("first diagnostic at offset %d (%s)", diag.Off, diag.String()),
				"first diagnostic at offset %d: %q", first.Off, first.Raw), cmpInfo{"rejected"}
		}
		if diag.AtEnd != strings.HasPrefix(first.Rest, " at end: ") && first.Off == diag.Off {
			return fw.Failf(fmt.Sprintf("at-end=%v", diag.AtEnd), "%q", first.Raw), cmpInfo{"rejected"}
		}
		return nil, cmpInfo{"rejected:" + diag.Class}
	}
	// accepted by the reference
	if len(diags) > 0 && strings.HasSuffix(diags[0].Rest, ": jump too long") {
		// implementation limit (a short-circuit operand of more than 65535 bytes of code): the reference has
		// no notion of code size, but the diagnostic must sit at the end of the right operand of an and/or
		// whose operand is huge
		ok := false
		var walk func(n *ref.Node)
		walk = func(n *ref.Node) {
			if n == nil {
				return
			}
			if (n.Kind == ref.NAnd || n.Kind == ref.NOr) && n.R.End-n.R.Start > 20000 && n.R.End == diags[0].Off {
				ok = true
			}
			walk(n.L)
			walk(n.R)
		}
		var walkS func(ss []*ref.Stmt)
		walkS = func(ss []*ref.Stmt) {
			for _, st := range ss {
				walk(st.X)
				walkS(st.Body)
			}
		}
		walkS(prog.Stmts)
		if !ok {
			return fw.Failf("'jump too long' reported just after the last token of the oversized and/or operand", "%q (offset %d)", diags[0].Raw, diags[0].Off), cmpInfo{"limit"}
		}
		if r.Err == nil || r.Blocks != nil || r.Binding != nil {
			return fw.Failf("no results on rejection", "%s", r.Summary()), cmpInfo{"limit"}
		}
		for _, d := range diags {
			if msg := checkDiagForm(src, toks, lexfail, d); msg != "" {
				return fw.Failf("diagnostic designates a token of the source", "%s", msg), cmpInfo{"limit"}
			}
		}
		return nil, cmpInfo{"rejected:limit-jump"}
	}
	if len(diags) > 0 {
		return fw.Failf("accepted, no diagnostic", "diagnostics: %q err=%v", r.Log, r.Err), cmpInfo{"accepted"}
	}
	if r.Err != nil && !strings.HasPrefix(r.Err.Error(), "runtime error: ") {
		return fw.Failf("accepted", "error %q", r.Err), cmpInfo{"accepted"}
	}
	if res.Unspecified != "" {
		return nil, cmpInfo{"unspecified:" + res.Unspecified}
	}
	// output
	wantOut := ""
	for _, l := range res.Out {
		wantOut += l + "\n"
	}
	if r.Out != wantOut {
		return fw.Failf(fmt.Sprintf("output %q", wantOut), "output %q (err=%v)", r.Out, r.Err), cmpInfo{"accepted"}
	}
	// error
	if res.Err != nil {
		if r.Err == nil {
			return fw.Failf("runtime error "+res.Err.Class, "no error; %s", r.Summary()), cmpInfo{"accepted"}
		}
		m := rtRe.FindStringSubmatch(r.Err.Error())
		if m == nil {
			return fw.Failf("runtime error with position", "%q", r.Err.Error()), cmpInfo{"accepted"}
		}
		l, _ := strconv.Atoi(m[1])
		c, _ := strconv.Atoi(m[2])
		off, ok := ref.Offset(src, l, c)
		if got := rtClass(m[3]); got != res.Err.Class {
			return fw.Failf("runtime error class "+res.Err.Class, "class %s (%q)", got, r.Err.Error()), cmpInfo{"accepted"}
		}
		if !ok || off != res.Err.Off {
			wl, wc := ref.LineCol(src, res.Err.Off)
			return fw.Failf(fmt.Sprintf("runtime error at %d:%d (offset %d)", wl, wc, res.Err.Off), "%q (offset %d ok=%v)", r.Err.Error(), off, ok), cmpInfo{"accepted"}
		}
	} else if r.Err != nil {
		return fw.Failf("no error", "error %q", r.Err.Error()), cmpInfo{"accepted"}
	}
	// blocks and binding
	if got, want := impl.BlocksStr(r.Blocks), ref.BlocksStr(res.Blocks); got != want && !(len(res.Blocks) == 0 && r.Blocks == nil) {
		return fw.Failf("blocks "+want, "blocks %s", got), cmpInfo{"accepted"}
	}
	wantB := ref.BindingStr(res.Binding)
	if res.Err != nil {
		// binding after a runtime error is not specified ("returned by a successful run")
		wantB = impl.BindingStr(r.Binding)
	}
	if got := impl.BindingStr(r.Binding); got != wantB {
		return fw.Failf("binding "+wantB, "binding %s", got), cmpInfo{"accepted"}
	}
	// warnings
	if len(warns) != len(res.Warnings) {
		return fw.Failf(fmt.Sprintf("%d warnings", len(res.Warnings)), "%d warnings: %q", len(warns), r.Log), cmpInfo{"accepted"}
	}
	for i, w := range warns {
		if !w.OffOK || w.Off != res.Warnings[i] {
			return fw.Failf(fmt.Sprintf("warning %d at offset %d", i, res.Warnings[i]), "%q (offset %d)", w.Raw, w.Off), cmpInfo{"accepted"}
		}
	}
	if res.Err != nil {
		return nil, cmpInfo{"accepted-rterr:" + strings.SplitN(res.Err.Class, ":", 2)[0]}
	}
	return nil, cmpInfo{"accepted-ok"}
}
