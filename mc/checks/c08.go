package checks

import (
	"bytes"
	"fmt"
	"strings"

	"github.com/wkhere/bcl"

	"verif/mc/bc"
	"verif/mc/fw"
	"verif/mc/gen"
	"verif/mc/impl"
)

// C08 — diagnostics point at the true source location.

// posExec: the reference-model oracle (first diagnostic at the reference's first offending
// token, every diagnostic quoting the source text ending at its offset, runtime errors and
// warnings at the end of the last token of the failing operation) plus: the line table in
// the dump equals the newline offsets; positions survive dump+load; positions are
// independent of chunking.
func posExec(cs fw.Case) *fw.Fail {
	c := cs.(*progCase)
	src := c.Src
	var info cmpInfo
	f := fw.Guard(func() *fw.Fail {
		ff, i := compareRun(src)
		info = i
		return ff
	})
	if f != nil {
		return f
	}
	if strings.HasPrefix(info.Class, "excluded") {
		return nil
	}
	return fw.Guard(func() *fw.Fail {
		// chunked: same diagnostics through ParseFile with cuts around the middle and at 1 byte/read
		whole := impl.Parse(src)
		n := len(src)
		scripts := [][]impl.Answer{impl.Chunks(n / 2), impl.Chunks(n/3, n/3), impl.Chunks(1, n-2)}
		if n <= 64 {
			var one []impl.Answer
			for i := 0; i < n; i++ {
				one = append(one, impl.Answer{N: 1})
			}
			scripts = append(scripts, one)
		}
		for _, sc := range scripts {
			pf := impl.ParseFile(impl.NewScriptFile(src, sc))
			if pf.Log != whole.Log {
				return fw.Failf("diagnostics independent of chunking: "+fw.Trunc(whole.Log, 300), "reads %v: %s", sc, fw.Trunc(pf.Log, 300))
			}
		}
		if whole.Err != nil {
			fw.TallyOutcome(info.Class)
			fw.TallyNontrivial()
			return nil
		}
		// positions belong to the program, not to the process: another source parsed in between
		// (different newline layout) must not change them
		_ = impl.Parse("\n\n# other\n\nprint 1\n\n\nprint 2 +\n\n")
		dump, err := impl.Dump(whole.Prog)
		if err != nil {
			return fw.Failf("Dump succeeds", "%v", err)
		}
		dp, derr := bc.Decode(dump)
		if derr != nil {
			return fw.Failf("dump decodes", "%v", derr)
		}
		var lfs []int
		for i := 0; i < n; i++ {
			if src[i] == '\n' {
				lfs = append(lfs, i)
			}
		}
		if fmt.Sprint(lfs) != fmt.Sprint(dp.Lfs) {
			return fw.Failf("line table = newline offsets "+trimInts(lfs), "%s", trimInts(dp.Lfs))
		}
		// every recorded position is the end offset of a token of the source
		// run before and after dump+load: identical error text and warnings (positions survive)
		fresh := impl.Interpret(src)
		var o1, l1 bytes.Buffer
		p1, _ := bcl.Parse([]byte(src), "input", bcl.OptOutput(&o1), bcl.OptLogger(&l1))
		_ = impl.Parse("\n# another\n\n\n\nprint 3\nprint )\n")
		_, _, e1 := bcl.Execute(p1)
		if got, want := fmt.Sprintf("err=%v log=%q", e1, l1.String()), fmt.Sprintf("err=%v log=%q", fresh.Err, fresh.Log); got != want {
			return fw.Failf("error and warning positions unaffected by other parses in between: "+fw.Trunc(want, 300), "%s", fw.Trunc(got, 300))
		}
		after, lerr := impl.LoadExec(dump)
		if lerr != nil {
			return fw.Failf("dump loads", "%v", lerr)
		}
		before := fmt.Sprintf("err=%v log=%q", e1, l1.String())
		if got := fmt.Sprintf("err=%v log=%q", after.Err, after.Log); got != before {
			return fw.Failf("positions survive dump and load: "+fw.Trunc(before, 300), "%s", fw.Trunc(got, 300))
		}
		// ... and when the dump is loaded (exported Load method) into a Prog that held a longer program before
		var o2, l2 bytes.Buffer
		q, qerr := bcl.Parse([]byte(strings.Repeat("\n# filler line\n", 40)+"print 1\n\n\n   print 1 / 0\n"), "input", bcl.OptOutput(&o2), bcl.OptLogger(&l2))
		if qerr == nil {
			// the Prog has run and failed before: the error it returned then is the caller's, its text stays what it was
			_, _, olderr := bcl.Execute(q)
			oldtext := fmt.Sprint(olderr)
			if !strings.Contains(oldtext, "line 84:15") {
				return fw.Failf("the filler program fails at line 84:15", "%s", oldtext)
			}
			if lerr := q.Load(bytes.NewReader(dump)); lerr != nil {
				return fw.Failf("dump loads into a used Prog", "%v", lerr)
			}
			if now := fmt.Sprint(olderr); now != oldtext {
				return fw.Failf("a run-time error returned before Load keeps its text: "+oldtext, "after another program was loaded into the Prog it reads %q", now)
			}
			l2.Reset()
			_, _, e2 := bcl.Execute(q)
			if got := fmt.Sprintf("err=%v log=%q", e2, l2.String()); got != before {
				return fw.Failf("positions survive a load into a Prog that held a longer program: "+fw.Trunc(before, 300), "%s", fw.Trunc(got, 300))
			}
		}
		fw.TallyOutcome(info.Class)
		if info.Class != "accepted-ok" || len(lfs) > 0 {
			fw.TallyNontrivial()
		}
		return nil
	})
}

var subC08 = &fw.Sub{Name: "c08.pos", New: func() fw.Case { return &progCase{} }, Exec: posExec}

func init() {
	fw.Register(&fw.Check{
		ID:    "C08",
		Level: "model_checking",
		Rule: "sources: (a) every corpus program and every single-token deviation of the hand-written corpus (so that a diagnostic occurs at every token position), each re-rendered with every layout in which <=1 gap (thorough: <=2 for programs of <=7 tokens) deviates, the gap taking each of 25 separators (blank lines, tabs, VT, FF, CR, CR LF, U+0085, U+00A0, comments with quotes/keywords/non-ASCII ending in LF or CR) and all-gaps-same renderings; " +
			"(b) operator chains of 2..6 operands in which exactly the k-th operation fails, with parenthesised operands, under the same layouts; (c) programs exactly at / beyond the operand-stack and block-nesting limits (the position of the limit error is predicted by the stack model of the reference evaluator) and scaled sources whose offsets cross the 1/2/3-byte varint ranges and the 4096-byte page, as newline padding (large line numbers) and comment padding (large columns). " +
			"Oracle per source: reference lexer/parser/evaluator predict the offset of the first compile diagnostic, of the runtime error and of every warning; every printed line:col must map back to a byte offset, every quoted token must be the source text ending there, 'at end' = end of input; the dump's line table = newline offsets; identical diagnostics through ParseFile under 3-4 chunkings; identical error/warning text after dump+load.",
		Subs:           []*fw.Sub{subC08},
		BudgetQuick:    100,
		BudgetThorough: 1500,
		Assumptions:    []string{"only the first compile diagnostic's location is predicted; later ones are checked for validity of position and quoted text"},
		Run: func(c *fw.Ctx) {
			do := func(src string) bool {
				c.Do(subC08, &progCase{Src: src})
				return !c.Expired()
			}
			seps := append(append([]string{}, gen.SepsBasic...), gen.SepsComments...)
			withLayouts := func(src string, k int) bool {
				toks, tail := gen.SplitTokens(src)
				if len(toks) == 0 {
					return do(src)
				}
				if !gen.Layouts(toks, tail, seps, k, do) {
					return false
				}
				for _, s := range []string{"\n", "\r\n", "\t", " #c\n", " ", "\n\n#é\n"} {
					if r, ok := gen.AllSame(toks, tail, s); ok {
						if !do(r) {
							return false
						}
					}
				}
				return true
			}
			// (c) scaled
			for _, s := range gen.ScaledFamilies(c.Thorough()) {
				if strings.HasPrefix(s.Name, "pad") || strings.HasPrefix(s.Name, "lines") || strings.HasPrefix(s.Name, "atlimit") ||
					strings.HasPrefix(s.Name, "stackdepth") || strings.HasPrefix(s.Name, "nest-") || strings.HasPrefix(s.Name, "vars-") || strings.HasPrefix(s.Name, "jump-") || strings.HasPrefix(s.Name, "constpool-") || strings.HasPrefix(s.Name, "nestthen-") || strings.HasPrefix(s.Name, "longtoken-diag") {
					do(s.Src)
				}
			}
			// a byte order mark in front of the source is not layout: the source is rejected there, and nothing shifts
			for _, body := range []string{"print 1/0", "", "\nprint )", "print 1\nprint )", "def a { x = 1 }\nbind a -> struct\nbind a -> slice"} {
				do("\ufeff" + body)
			}
			// Unicode line / paragraph separators and other look-alike line ends are ordinary characters of comments and strings
			for _, sep := range []string{"\u2028", "\u2029", "\u0085", "\v", "\f", "\u000b\u2028"} {
				do("# a" + sep + "b\nprint )")
				do("print \"a" + sep + "b\"\nprint 1 +\n")
				do("def a { s = \"" + sep + sep + "\" } # " + sep + "\n\nbind a -> struct\nbind a -> slice\nprint 1/0")
			}
			// strings that run into a line end / the end of input right after a backslash
			for _, tail := range []string{"", "\n", "\nprint 1", "\r\nprint 1", "\n\"", "\ncd\"\nprint 2"} {
				do("print \"ab\\" + tail)
				do("def b \"n\\" + tail)
				do("print 1\nx = \"q\\\\\\" + tail)
			}
			// the jump limit: an oversized operand followed by more source (so that "the next token" differs from "the last token")
			big := "2" + strings.Repeat("+1", 33000)
			for _, tail := range []string{"", "\nprint 3", " ;\n\n  print 4\n", " # c\nvar x = 1"} {
				do("print false and " + big + tail)
				do("def b { x = nil or (" + big + ")" + " }" + tail)
			}
			// (b) chains with exactly the k-th operation failing
			for n := 2; n <= 6; n++ {
				for k := 0; k < n; k++ {
					for _, op := range []string{"-", "*", "<", "/"} {
						var parts, pparts []string
						for i := 0; i < n; i++ {
							a := "1"
							if i == k {
								a = `"s"`
							}
							parts = append(parts, a)
							pparts = append(pparts, "("+a+")")
						}
						for _, ctx := range []string{"print %s", "def b { x = %s }", "var v = %s\nprint v"} {
							if !withLayouts(fmt.Sprintf(ctx, strings.Join(parts, " "+op+" ")), 1) || !withLayouts(fmt.Sprintf(ctx, strings.Join(pparts, " "+op+" ")), 1) {
								return
							}
						}
					}
				}
			}
			// (a) corpus and deviations under layouts
			for _, src := range gen.Core() {
				if !do(src) {
					return
				}
			}
			for _, src := range gen.Small() {
				k := 1
				toks, _ := gen.SplitTokens(src)
				if c.Thorough() && len(toks) <= 7 {
					k = 2
				}
				if len(toks) > 40 {
					continue
				}
				if !withLayouts(src, k) {
					c.Cap("deadline during corpus layouts")
					return
				}
			}
			for _, src := range gen.Small() {
				toks, _ := gen.SplitTokens(src)
				if len(toks) > 14 {
					continue
				}
				ok := gen.Deviations(src, c17Toks, nil, func(d string) bool {
					if c.Quick() && len(toks) > 7 {
						return do(d)
					}
					return withLayouts(d, 1)
				})
				if !ok {
					c.Cap("deadline during deviations")
					return
				}
			}
		},
		Finish: func(m *fw.Merged) []string {
			var v []string
			for _, o := range []string{"rejected:syntax", "rejected:lexical", "accepted-rterr:types", "accepted-ok", "rejected:undefined"} {
				if m.Outcomes[o] == 0 {
					v = append(v, "vacuous: outcome class never observed: "+o)
				}
			}
			return v
		},
	})
}
