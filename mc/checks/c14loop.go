package checks

import (
	"fmt"

	"verif/mc/bc"
	"verif/mc/fw"
	"verif/mc/impl"
)

// c14.longloop — a stored version 1.1 file may run for as long as it likes: a hand-assembled countdown loop (LOOP is
// never emitted by the compiler) of N rounds, 9 instructions each. Small N are run by the reference VM too (which
// validates the assembly); large N (tens to hundreds of millions of instructions) have the closed-form result "0".
type c14Loop struct {
	N int `json:"n"`
}

func (c *c14Loop) Key() string { return fmt.Sprint(c.N) }

func countdownProg(n int) *bc.Prog {
	code := []byte{
		bc.CONST, 0, // 0: the counter becomes local slot 0
		bc.GETLOCAL, 0, // 2: loop head
		bc.JFALSE, 0, 11, // 4: counter == 0 -> 18
		bc.POP,         // 7
		bc.GETLOCAL, 0, // 8
		bc.ONE,         // 10
		bc.SUB,         // 11
		bc.SETLOCAL, 0, // 12
		bc.POP,         // 14
		bc.LOOP, 0, 16, // 15: back to 2
		bc.POP,         // 18
		bc.GETLOCAL, 0, // 19
		bc.PRINT, // 21
		bc.POP,   // 22
		bc.RET,   // 23
	}
	return &bc.Prog{Major: 1, Minor: 1, Name: "countdown", Code: code, Consts: []any{int64(n)}, Positions: instrPositions(code)}
}

var subC14Loop = &fw.Sub{Name: "c14.longloop", New: func() fw.Case { return &c14Loop{} }, Exec: func(cs fw.Case) *fw.Fail {
	c := cs.(*c14Loop)
	p := countdownProg(c.N)
	if _, err := bc.Verify(p); err != nil {
		return fw.Failf("the countdown file is well-formed", "%v", err)
	}
	if c.N <= 10000 {
		return execAssembled(p) // 9 N + 8 steps in the reference VM
	}
	return fw.Guard(func() *fw.Fail {
		fw.Heartbeat()
		got, err := impl.LoadExec(p.Encode())
		if err != nil {
			return fw.Failf("LoadProg accepts a well-formed version 1.1 file", "%v", err)
		}
		if got.Err != nil || got.Out != "0\n" {
			return fw.Failf(fmt.Sprintf("a countdown of %d rounds (%d instructions) ends and prints 0", c.N, 9*c.N+8), "out=%q err=%v", fw.Trunc(got.Out, 100), got.Err)
		}
		fw.Tally("loop_instructions", int64(9*c.N+8))
		fw.TallyOutcome("asm-ok")
		fw.TallyNontrivial()
		return nil
	})
}}

func c14LoopCases(thorough bool) []*c14Loop {
	ns := []int{0, 1, 2, 3, 255, 256, 257, 10000, 65536, 1 << 20, 8000000, 15000000}
	if thorough {
		ns = append(ns, 40000000, 250000000)
	}
	var cs []*c14Loop
	for _, n := range ns {
		cs = append(cs, &c14Loop{N: n})
	}
	return cs
}
