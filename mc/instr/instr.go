// Package instr rewrites the sources of package bcl (read from /repo's working
// tree at check time) so that channel operations, go statements, selects, map
// iteration and shared-memory accesses go through mc/vsched. The result is written
// next to an overlay.json for `go build -overlay`; /repo itself is never modified.
package instr

import (
	"bytes"
	"encoding/json"
	"fmt"
	"go/ast"
	"go/format"
	"go/importer"
	"go/parser"
	"go/token"
	"go/types"
	"os"
	"path/filepath"
	"sort"
	"strconv"
	"strings"

	"golang.org/x/tools/go/ast/astutil"
)

const vschedPath = "verif/mc/vsched"

type Options struct {
	RepoDir string
	OutDir  string
	Memory  bool     // instrument shared-memory accesses (race detection)
	Knobs   []string // integer constants turned into harness-settable variables (e.g. tokensBufSize)
}

type Stats struct {
	Files, ChanTypes, Makes, Sends, Recvs, Closes, Selects, Gos, RangeChan, RangeMap, MemReads, MemWrites int
	Skipped, Knobs                                                                                        []string
}

type rewriter struct {
	usesCPUs bool
	fset     *token.FileSet
	info     *types.Info
	pkg      *types.Package
	opt      Options
	stats    Stats

	commStmts  map[ast.Node]bool        // Comm statements of select clauses (left alone by the generic rules)
	recv2      map[*ast.UnaryExpr]bool  // receive in a comma-ok context
	chanCalls  map[*ast.CallExpr]string // builtin close/len/cap on a channel, make(chan)
	rangeChan  map[*ast.RangeStmt]bool
	rangeMap   map[*ast.RangeStmt]bool
	memR       map[ast.Expr]bool
	memW       map[ast.Expr]bool
	tracked    map[*types.Var]bool
	usesVS     bool
	fileUsesVS map[int]bool
	errs       []string
}

func isChan(t types.Type) bool {
	if t == nil {
		return false
	}
	_, ok := t.Underlying().(*types.Chan)
	return ok
}

func isMap(t types.Type) bool {
	if t == nil {
		return false
	}
	_, ok := t.Underlying().(*types.Map)
	return ok
}

func vs(name string) ast.Expr {
	return &ast.SelectorExpr{X: ast.NewIdent("vsched"), Sel: ast.NewIdent(name)}
}

func call(fun ast.Expr, args ...ast.Expr) *ast.CallExpr { return &ast.CallExpr{Fun: fun, Args: args} }

func method(x ast.Expr, name string, args ...ast.Expr) *ast.CallExpr {
	return call(&ast.SelectorExpr{X: x, Sel: ast.NewIdent(name)}, args...)
}

// Rewrite instruments the package in opt.RepoDir and writes the overlay.
func Rewrite(opt Options) (overlayPath string, st Stats, err error) {
	fset := token.NewFileSet()
	ents, err := os.ReadDir(opt.RepoDir)
	if err != nil {
		return "", st, err
	}
	var files []*ast.File
	var names []string
	for _, e := range ents {
		n := e.Name()
		if e.IsDir() || !strings.HasSuffix(n, ".go") || strings.HasSuffix(n, "_test.go") {
			continue
		}
		f, perr := parser.ParseFile(fset, filepath.Join(opt.RepoDir, n), nil, parser.ParseComments)
		if perr != nil {
			return "", st, perr
		}
		// honour build constraints crudely: skip files with a "//go:build ignore"
		skip := false
		for _, cg := range f.Comments {
			if cg.Pos() < f.Package && strings.Contains(cg.Text(), "go:build ignore") {
				skip = true
			}
		}
		if skip {
			continue
		}
		files = append(files, f)
		names = append(names, n)
	}
	info := &types.Info{
		Types:      map[ast.Expr]types.TypeAndValue{},
		Defs:       map[*ast.Ident]types.Object{},
		Uses:       map[*ast.Ident]types.Object{},
		Selections: map[*ast.SelectorExpr]*types.Selection{},
		Scopes:     map[ast.Node]*types.Scope{},
	}
	cwd, _ := os.Getwd()
	os.Chdir(opt.RepoDir)
	conf := types.Config{Importer: importer.ForCompiler(fset, "source", nil), Error: func(error) {}}
	pkg, terr := conf.Check("github.com/wkhere/bcl", fset, files, info)
	os.Chdir(cwd)
	if terr != nil {
		return "", st, fmt.Errorf("type check: %w", terr)
	}
	rw := &rewriter{fset: fset, info: info, pkg: pkg, opt: opt,
		commStmts: map[ast.Node]bool{}, recv2: map[*ast.UnaryExpr]bool{}, chanCalls: map[*ast.CallExpr]string{},
		rangeChan: map[*ast.RangeStmt]bool{}, rangeMap: map[*ast.RangeStmt]bool{},
		memR: map[ast.Expr]bool{}, memW: map[ast.Expr]bool{}, tracked: map[*types.Var]bool{}}
	if opt.Memory {
		rw.findTracked(files)
	}
	for _, f := range files {
		rw.collect(f)
	}
	os.MkdirAll(opt.OutDir, 0o755)
	overlay := map[string]map[string]string{"Replace": {}}
	rw.fileUsesVS = map[int]bool{}
	for i, f := range files {
		rw.usesVS = false
		rw.usesCPUs = false
		rw.apply(f)
		rw.fileUsesVS[i] = rw.usesVS
		if rw.usesCPUs {
			// keep the import of package runtime used
			f.Decls = append(f.Decls, &ast.GenDecl{Tok: token.VAR, Specs: []ast.Spec{&ast.ValueSpec{Names: []*ast.Ident{ast.NewIdent("_")},
				Values: []ast.Expr{&ast.SelectorExpr{X: ast.NewIdent("runtime"), Sel: ast.NewIdent("Version")}}}}})
		}
		if rw.usesVS {
			astutil.AddNamedImport(fset, f, "vsched", vschedPath)
		}
		astutil.RewriteImport(fset, f, "sync", vschedPath+"/shim/sync")
		astutil.RewriteImport(fset, f, "sync/atomic", vschedPath+"/shim/atomic")
		var buf bytes.Buffer
		if ferr := format.Node(&buf, fset, f); ferr != nil {
			return "", rw.stats, fmt.Errorf("format %s: %w", names[i], ferr)
		}
		out := filepath.Join(opt.OutDir, names[i])
		src := buf.Bytes()
		for _, k := range opt.Knobs {
			// `const name = N` on one line becomes a variable the harness can set per execution
			pat := "const " + k + " = "
			if j := bytes.Index(src, []byte(pat)); j >= 0 {
				end := bytes.IndexByte(src[j:], '\n')
				val := string(src[j+len(pat) : j+end])
				repl := fmt.Sprintf("var %s int = %s", k, val)
				src = append(append(append([]byte{}, src[:j]...), []byte(repl)...), src[j+end:]...)
				rw.stats.Knobs = append(rw.stats.Knobs, k)
			}
		}
		if werr := os.WriteFile(out, src, 0o644); werr != nil {
			return "", rw.stats, werr
		}
		overlay["Replace"][filepath.Join(opt.RepoDir, names[i])] = out
		rw.stats.Files++
	}
	if len(rw.errs) > 0 {
		return "", rw.stats, fmt.Errorf("cannot rewrite: %s", strings.Join(rw.errs, "; "))
	}
	// marker: lets the harness assert that it runs against the instrumented package
	marker := filepath.Join(opt.OutDir, "zz_vsched_marker.go")
	msrc := "package bcl\n\nimport vsched \"" + vschedPath + "\"\n\nfunc init() {\n\tvsched.Instrumented = true\n"
	for _, k := range rw.stats.Knobs {
		msrc += fmt.Sprintf("\tvsched.RegisterKnob(%q, &%s)\n", k, k)
	}
	msrc += "}\n"
	if werr := os.WriteFile(marker, []byte(msrc), 0o644); werr != nil {
		return "", rw.stats, werr
	}
	overlay["Replace"][filepath.Join(opt.RepoDir, "zz_vsched_marker.go")] = marker
	b, _ := json.MarshalIndent(overlay, "", " ")
	overlayPath = filepath.Join(opt.OutDir, "overlay.json")
	if werr := os.WriteFile(overlayPath, b, 0o644); werr != nil {
		return "", rw.stats, werr
	}
	sort.Strings(rw.stats.Skipped)
	return overlayPath, rw.stats, nil
}

func (rw *rewriter) fail(n ast.Node, format string, a ...any) {
	rw.errs = append(rw.errs, rw.fset.Position(n.Pos()).String()+": "+fmt.Sprintf(format, a...))
}

// ---------------------------------------------------------------- which variables are shared-memory candidates

// findTracked: package-level variables, and local variables that are used inside a
// function literal nested in their declaring function and assigned after declaration.
func (rw *rewriter) findTracked(files []*ast.File) {
	assigned := map[*types.Var]bool{}
	captured := map[*types.Var]bool{}
	for _, f := range files {
		// function literal nesting: for every ident use, is it inside a FuncLit that does not contain the declaration?
		var stack []ast.Node
		ast.Inspect(f, func(n ast.Node) bool {
			if n == nil {
				stack = stack[:len(stack)-1]
				return true
			}
			stack = append(stack, n)
			switch x := n.(type) {
			case *ast.Ident:
				v, ok := rw.info.Uses[x].(*types.Var)
				if !ok || v.IsField() {
					return true
				}
				if v.Parent() == rw.pkg.Scope() {
					return true
				}
				// innermost enclosing FuncLit of the use
				for i := len(stack) - 1; i >= 0; i-- {
					if fl, ok := stack[i].(*ast.FuncLit); ok {
						if !(fl.Pos() <= v.Pos() && v.Pos() < fl.End()) {
							captured[v] = true
						}
						break
					}
				}
			case *ast.AssignStmt:
				if x.Tok != token.DEFINE {
					for _, l := range x.Lhs {
						if id, ok := baseIdent(l); ok {
							if v, ok := rw.info.Uses[id].(*types.Var); ok {
								assigned[v] = true
							}
						}
					}
				} else {
					for _, l := range x.Lhs {
						if id, ok := l.(*ast.Ident); ok {
							if v, ok := rw.info.Uses[id].(*types.Var); ok { // re-used in :=
								assigned[v] = true
							}
						}
					}
				}
			case *ast.IncDecStmt:
				if id, ok := baseIdent(x.X); ok {
					if v, ok := rw.info.Uses[id].(*types.Var); ok {
						assigned[v] = true
					}
				}
			}
			return true
		})
	}
	for v := range captured {
		if assigned[v] {
			rw.tracked[v] = true
		}
	}
	sc := rw.pkg.Scope()
	for _, name := range sc.Names() {
		if v, ok := sc.Lookup(name).(*types.Var); ok {
			rw.tracked[v] = true
		}
	}
}

// baseIdent: the identifier a (possibly indexed / parenthesised) lvalue is rooted at, if it is rooted at a plain identifier.
func baseIdent(e ast.Expr) (*ast.Ident, bool) {
	for {
		switch x := e.(type) {
		case *ast.Ident:
			return x, true
		case *ast.ParenExpr:
			e = x.X
		case *ast.IndexExpr:
			e = x.X
		default:
			return nil, false
		}
	}
}

// ---------------------------------------------------------------- pass 1: decisions on original nodes

func (rw *rewriter) collect(f *ast.File) {
	typeOf := func(e ast.Expr) types.Type { return rw.info.TypeOf(e) }
	var markLHS func(e ast.Expr)
	markLHS = func(e ast.Expr) {
		switch x := e.(type) {
		case *ast.ParenExpr:
			markLHS(x.X)
		case *ast.Ident:
			rw.memW[x] = true
		case *ast.SelectorExpr:
			rw.memW[x] = true
		case *ast.IndexExpr:
			// element write: counted as a write of the array / slice / map holder
			markLHS(x.X)
		}
	}
	ast.Inspect(f, func(n ast.Node) bool {
		switch x := n.(type) {
		case *ast.SelectStmt:
			for _, c := range x.Body.List {
				cc := c.(*ast.CommClause)
				if cc.Comm != nil {
					rw.commStmts[cc.Comm] = true
					switch s := cc.Comm.(type) {
					case *ast.ExprStmt:
						if u, ok := s.X.(*ast.UnaryExpr); ok {
							rw.commStmts[u] = true
						}
					case *ast.AssignStmt:
						if u, ok := s.Rhs[0].(*ast.UnaryExpr); ok {
							rw.commStmts[u] = true
						}
					}
				}
			}
		case *ast.AssignStmt:
			if len(x.Lhs) == 2 && len(x.Rhs) == 1 {
				if u, ok := x.Rhs[0].(*ast.UnaryExpr); ok && u.Op == token.ARROW {
					rw.recv2[u] = true
				}
			}
			if x.Tok != token.DEFINE {
				for _, l := range x.Lhs {
					markLHS(l)
				}
			}
		case *ast.IncDecStmt:
			markLHS(x.X)
		case *ast.SliceExpr:
			// slicing an ARRAY makes a writable alias of its storage (the callee / later code writes through
			// it unseen): counted as a write of the array holder. Slicing a slice only reads its header.
			if t := typeOf(x.X); t != nil {
				if _, isArr := t.Underlying().(*types.Array); isArr {
					markLHS(x.X)
				}
			}
		case *ast.ValueSpec:
			if len(x.Names) == 2 && len(x.Values) == 1 {
				if u, ok := x.Values[0].(*ast.UnaryExpr); ok && u.Op == token.ARROW {
					rw.recv2[u] = true
				}
			}
		case *ast.UnaryExpr:
			if x.Op == token.AND {
				// address-of: not an access of the operand's root
				if id, ok := baseIdent(x.X); ok {
					rw.memW[id] = false
					rw.memR[id] = false
					rw.commStmts[id] = true // reuse the set as "leave alone"
				}
				if s, ok := x.X.(*ast.SelectorExpr); ok {
					rw.commStmts[s] = true
				}
			}
		case *ast.CallExpr:
			// a pointer-receiver method called on a package-level variable that is not a pointer, an interface or a
			// synchronisation primitive (buf.Reset(), cache.Store(...)) may modify it: counted as a write of the variable
			if se, ok := x.Fun.(*ast.SelectorExpr); ok && rw.opt.Memory {
				if id, ok := se.X.(*ast.Ident); ok {
					if v, ok := rw.info.Uses[id].(*types.Var); ok && v.Parent() == rw.pkg.Scope() {
						if sel := rw.info.Selections[se]; sel != nil && sel.Kind() == types.MethodVal {
							if fn, ok := sel.Obj().(*types.Func); ok {
								sig := fn.Type().(*types.Signature)
								_, ptrRecv := sig.Recv().Type().(*types.Pointer)
								_, varIsPtr := v.Type().Underlying().(*types.Pointer)
								_, varIsIface := v.Type().Underlying().(*types.Interface)
								syncType := false
								if n, ok := v.Type().(*types.Named); ok && n.Obj().Pkg() != nil {
									pp := n.Obj().Pkg().Path()
									syncType = pp == "sync" || pp == "sync/atomic"
								}
								if ptrRecv && !varIsPtr && !varIsIface && !syncType {
									markLHS(id)
								}
							}
						}
					}
				}
			}
			if id, ok := x.Fun.(*ast.Ident); ok {
				if b, ok := rw.info.Uses[id].(*types.Builtin); ok {
					switch b.Name() {
					case "append":
						// append writes into the spare capacity of its first argument's array: whoever else holds a
						// slice of that array (the caller of a variadic function, a pool) sees that write
						if rw.opt.Memory && len(x.Args) >= 2 {
							rw.chanCalls[x] = "append"
						}
					case "close":
						rw.chanCalls[x] = "Close"
					case "len", "cap":
						if len(x.Args) == 1 && isChan(typeOf(x.Args[0])) {
							rw.chanCalls[x] = map[string]string{"len": "Len", "cap": "Cap"}[b.Name()]
						}
					case "make":
						if len(x.Args) >= 1 && isChan(typeOf(x.Args[0])) {
							if _, lit := x.Args[0].(*ast.ChanType); lit {
								rw.chanCalls[x] = "make"
							} else {
								rw.fail(x, "make of a named channel type")
							}
						}
					}
				}
			}
		case *ast.RangeStmt:
			switch {
			case isChan(typeOf(x.X)):
				rw.rangeChan[x] = true
			case isMap(typeOf(x.X)):
				rw.rangeMap[x] = true
			}
			if x.Tok == token.ASSIGN {
				if x.Key != nil {
					markLHS(x.Key)
				}
				if x.Value != nil {
					markLHS(x.Value)
				}
			}
		}
		return true
	})
	if !rw.opt.Memory {
		rw.memW = map[ast.Expr]bool{}
		rw.memR = map[ast.Expr]bool{}
		return
	}
	// every other use of a tracked variable / addressable field is a read
	ast.Inspect(f, func(n ast.Node) bool {
		switch x := n.(type) {
		case *ast.SelectorExpr:
			sel := rw.info.Selections[x]
			if sel == nil || sel.Kind() != types.FieldVal {
				return true
			}
			tv, ok := rw.info.Types[x]
			if !ok || !tv.Addressable() || rw.commStmts[x] {
				delete(rw.memW, x)
				return true
			}
			// only fields of struct types declared in this package
			if !rw.ownStruct(sel.Recv()) {
				delete(rw.memW, x)
				return true
			}
			if !rw.memW[x] {
				rw.memR[x] = true
			}
		case *ast.Ident:
			v, ok := rw.info.Uses[x].(*types.Var)
			if !ok || !rw.tracked[v] || rw.commStmts[x] {
				delete(rw.memW, x)
				return true
			}
			if !rw.memW[x] {
				rw.memR[x] = true
			}
		}
		return true
	})
	// selectors that are the X of a marked selector are plain reads already; idents that are
	// the Sel of a selector are never in Uses as variables of ours.
}

func (rw *rewriter) ownStruct(t types.Type) bool {
	for {
		if p, ok := t.(*types.Pointer); ok {
			t = p.Elem()
			continue
		}
		break
	}
	n, ok := t.(*types.Named)
	if !ok {
		return false
	}
	if n.Obj().Pkg() != rw.pkg {
		return false
	}
	_, isStruct := n.Underlying().(*types.Struct)
	return isStruct
}

// ---------------------------------------------------------------- pass 2: rewriting (post-order)

func (rw *rewriter) apply(f *ast.File) {
	tmpN := 0
	astutil.Apply(f, nil, func(c *astutil.Cursor) bool {
		switch x := c.Node().(type) {
		case *ast.ChanType:
			rw.usesVS = true
			rw.stats.ChanTypes++
			c.Replace(&ast.StarExpr{X: &ast.IndexExpr{X: vs("Chan"), Index: x.Value}})
		case *ast.CallExpr:
			// the number of CPUs is an answer of the environment: runtime.GOMAXPROCS(n) / runtime.NumCPU() ask the harness
			if se, ok := x.Fun.(*ast.SelectorExpr); ok {
				if id, ok := se.X.(*ast.Ident); ok {
					if pn, ok := rw.info.Uses[id].(*types.PkgName); ok && pn.Imported().Path() == "runtime" && (se.Sel.Name == "GOMAXPROCS" || se.Sel.Name == "NumCPU") {
						rw.usesVS = true
						rw.usesCPUs = true
						x.Fun = vs(se.Sel.Name)
						return true
					}
				}
			}
			switch rw.chanCalls[x] {
			case "make":
				rw.usesVS = true
				rw.stats.Makes++
				// Args[0] was a ChanType and is now *vsched.Chan[T]
				elem := x.Args[0].(*ast.StarExpr).X.(*ast.IndexExpr).Index
				size := ast.Expr(&ast.BasicLit{Kind: token.INT, Value: "0"})
				if len(x.Args) > 1 {
					size = x.Args[1]
				}
				c.Replace(call(&ast.IndexExpr{X: vs("NewChan"), Index: elem}, size))
			case "Close":
				rw.stats.Closes++
				c.Replace(method(x.Args[0], "Close"))
			case "Len", "Cap":
				c.Replace(method(x.Args[0], rw.chanCalls[x]))
			case "append":
				rw.usesVS = true
				x.Args[0] = call(vs("AppendTo"), x.Args[0])
			}
		case *ast.SendStmt:
			if rw.commStmts[x] {
				return true
			}
			rw.stats.Sends++
			c.Replace(&ast.ExprStmt{X: method(x.Chan, "Send", x.Value)})
		case *ast.UnaryExpr:
			if x.Op != token.ARROW || rw.commStmts[x] {
				return true
			}
			rw.stats.Recvs++
			if rw.recv2[x] {
				c.Replace(method(x.X, "Recv2"))
			} else {
				c.Replace(method(x.X, "Recv"))
			}
		case *ast.GoStmt:
			rw.usesVS = true
			rw.stats.Gos++
			// evaluate the arguments now, as the go statement does
			var pre []ast.Stmt
			callx := x.Call
			newArgs := make([]ast.Expr, len(callx.Args))
			for i, a := range callx.Args {
				switch a.(type) {
				case *ast.BasicLit, *ast.Ident:
					newArgs[i] = a
				default:
					tmpN++
					id := ast.NewIdent(fmt.Sprintf("__go_arg%d", tmpN))
					pre = append(pre, &ast.AssignStmt{Lhs: []ast.Expr{id}, Tok: token.DEFINE, Rhs: []ast.Expr{a}})
					newArgs[i] = id
				}
			}
			nc := &ast.CallExpr{Fun: callx.Fun, Args: newArgs, Ellipsis: callx.Ellipsis}
			fl := &ast.FuncLit{Type: &ast.FuncType{Params: &ast.FieldList{}}, Body: &ast.BlockStmt{List: []ast.Stmt{&ast.ExprStmt{X: nc}}}}
			goCall := &ast.ExprStmt{X: call(vs("Go"), fl)}
			if len(pre) == 0 {
				c.Replace(goCall)
			} else {
				c.Replace(&ast.BlockStmt{List: append(pre, goCall)})
			}
		case *ast.SelectStmt:
			rw.usesVS = true
			rw.stats.Selects++
			c.Replace(rw.rewriteSelect(x, &tmpN))
		case *ast.RangeStmt:
			switch {
			case rw.rangeChan[x]:
				rw.stats.RangeChan++
				c.Replace(rw.rewriteRangeChan(x, &tmpN))
			case rw.rangeMap[x]:
				rw.usesVS = true
				rw.stats.RangeMap++
				c.Replace(rw.rewriteRangeMap(x, &tmpN))
			}
		case *ast.SelectorExpr:
			if rw.memW[x] {
				rw.usesVS = true
				rw.stats.MemWrites++
				c.Replace(memAccess("W", x))
			} else if rw.memR[x] {
				rw.usesVS = true
				rw.stats.MemReads++
				c.Replace(memAccess("R", x))
			}
		case *ast.Ident:
			// never touch identifiers in non-expression positions
			switch p := c.Parent().(type) {
			case *ast.SelectorExpr:
				if p.Sel == x {
					return true
				}
			case *ast.KeyValueExpr:
				if p.Key == x {
					if _, isField := rw.info.Uses[x].(*types.Var); isField && rw.info.Uses[x].(*types.Var).IsField() {
						return true
					}
				}
			case *ast.ValueSpec:
				for _, nm := range p.Names {
					if nm == x {
						return true
					}
				}
			case *ast.Field:
				for _, nm := range p.Names {
					if nm == x {
						return true
					}
				}
			case *ast.LabeledStmt, *ast.BranchStmt, *ast.FuncDecl, *ast.TypeSpec, *ast.ImportSpec:
				return true
			case *ast.AssignStmt:
				if p.Tok == token.DEFINE {
					for _, l := range p.Lhs {
						if l == ast.Expr(x) {
							return true
						}
					}
				}
			}
			if rw.memW[x] {
				rw.usesVS = true
				rw.stats.MemWrites++
				c.Replace(memAccess("W", x))
			} else if rw.memR[x] {
				rw.usesVS = true
				rw.stats.MemReads++
				c.Replace(memAccess("R", x))
			}
		}
		return true
	})
}

// memAccess builds (*vsched.R(&e)) / (*vsched.W(&e)).
func memAccess(kind string, e ast.Expr) ast.Expr {
	return &ast.ParenExpr{X: &ast.StarExpr{X: call(vs(kind), &ast.UnaryExpr{Op: token.AND, X: e})}}
}

func (rw *rewriter) rewriteSelect(s *ast.SelectStmt, tmpN *int) ast.Stmt {
	var pre []ast.Stmt
	var cases []ast.Expr
	var clauses []ast.Stmt
	for i, c := range s.Body.List {
		cc := c.(*ast.CommClause)
		body := cc.Body
		switch comm := cc.Comm.(type) {
		case nil:
			cases = append(cases, call(vs("DefaultCase")))
		case *ast.SendStmt:
			cases = append(cases, call(vs("SendCase"), comm.Chan, comm.Value))
		case *ast.ExprStmt:
			u, ok := comm.X.(*ast.UnaryExpr)
			if !ok || u.Op != token.ARROW {
				rw.fail(comm, "unsupported select case")
				continue
			}
			cases = append(cases, call(vs("RecvCase"), u.X, ast.NewIdent("nil")))
		case *ast.AssignStmt:
			u, ok := comm.Rhs[0].(*ast.UnaryExpr)
			if !ok || u.Op != token.ARROW {
				rw.fail(comm, "unsupported select case")
				continue
			}
			*tmpN++
			slot := ast.NewIdent(fmt.Sprintf("__sel_slot%d", *tmpN))
			pre = append(pre, &ast.AssignStmt{Lhs: []ast.Expr{slot}, Tok: token.DEFINE, Rhs: []ast.Expr{call(vs("NewSlot"), u.X)}})
			cases = append(cases, call(vs("RecvCase"), u.X, slot))
			rhs := []ast.Expr{&ast.SelectorExpr{X: slot, Sel: ast.NewIdent("V")}}
			if len(comm.Lhs) == 2 {
				rhs = append(rhs, &ast.SelectorExpr{X: slot, Sel: ast.NewIdent("OK")})
			}
			assign := &ast.AssignStmt{Lhs: comm.Lhs, Tok: comm.Tok, Rhs: rhs}
			var keep []ast.Stmt
			keep = append(keep, assign)
			if comm.Tok == token.DEFINE {
				// silence "declared and not used"
				for _, l := range comm.Lhs {
					if id, ok := l.(*ast.Ident); ok && id.Name != "_" {
						keep = append(keep, &ast.AssignStmt{Lhs: []ast.Expr{ast.NewIdent("_")}, Tok: token.ASSIGN, Rhs: []ast.Expr{ast.NewIdent(id.Name)}})
					}
				}
			}
			body = append(keep, body...)
		default:
			rw.fail(cc, "unsupported select case")
			continue
		}
		clauses = append(clauses, &ast.CaseClause{List: []ast.Expr{&ast.BasicLit{Kind: token.INT, Value: strconv.Itoa(i)}}, Body: body})
	}
	sw := &ast.SwitchStmt{Tag: call(vs("Select"), cases...), Body: &ast.BlockStmt{List: clauses}}
	if len(pre) == 0 {
		return sw
	}
	// a labelled break/continue targeting the select would break; not used in this code base
	return &ast.BlockStmt{List: append(pre, sw)}
}

func (rw *rewriter) rewriteRangeChan(r *ast.RangeStmt, tmpN *int) ast.Stmt {
	*tmpN++
	ok := ast.NewIdent(fmt.Sprintf("__ok%d", *tmpN))
	var v ast.Expr = ast.NewIdent("_")
	tok := token.DEFINE
	if r.Key != nil {
		v = r.Key
		tok = r.Tok
	}
	if tok == token.ASSIGN {
		rw.fail(r, "range over channel with '=' is not supported")
	}
	recv := func() ast.Expr { return method(r.X, "Recv2") }
	return &ast.ForStmt{
		Init: &ast.AssignStmt{Lhs: []ast.Expr{v, ok}, Tok: token.DEFINE, Rhs: []ast.Expr{recv()}},
		Cond: ok,
		Post: &ast.AssignStmt{Lhs: []ast.Expr{v, ok}, Tok: token.ASSIGN, Rhs: []ast.Expr{recv()}},
		Body: r.Body,
	}
}

func (rw *rewriter) rewriteRangeMap(r *ast.RangeStmt, tmpN *int) ast.Stmt {
	// for k, v := range m  =>  for _, k := range vsched.MapKeys(m) { v := m[k]; ... }
	keys := call(vs("MapKeys"), r.X)
	if r.Tok == token.ASSIGN {
		rw.fail(r, "range over map with '=' is not supported")
		return r
	}
	var key ast.Expr
	if id, ok := r.Key.(*ast.Ident); ok && id.Name != "_" {
		key = id
	} else {
		*tmpN++
		key = ast.NewIdent(fmt.Sprintf("__k%d", *tmpN))
	}
	body := r.Body
	if r.Value != nil {
		if id, ok := r.Value.(*ast.Ident); !ok || id.Name != "_" {
			assign := &ast.AssignStmt{Lhs: []ast.Expr{r.Value}, Tok: token.DEFINE, Rhs: []ast.Expr{&ast.IndexExpr{X: r.X, Index: key}}}
			body = &ast.BlockStmt{List: append([]ast.Stmt{assign}, r.Body.List...)}
		}
	}
	if r.Key == nil {
		key = ast.NewIdent("_")
	}
	return &ast.RangeStmt{Key: ast.NewIdent("_"), Value: key, Tok: token.DEFINE, X: keys, Body: body}
}
