// racepass: the supplementary free-running pass of C12 — the same harness bodies,
// uninstrumented, under the Go race detector (build with -race). Sampling, not deciding.
package main

import (
	"fmt"
	"os"

	"verif/mc/checks"
)

func main() {
	n := checks.RacePass()
	fmt.Fprintf(os.Stderr, "racepass: %d bodies executed\n", n)
}
