// bclmc: model-checking harness for wkhere/bcl. See /verif/DESIGN.md.
package main

import (
	"fmt"
	"os"
	"strconv"

	_ "verif/mc/checks"
	"verif/mc/fw"
)

func main() {
	if len(os.Args) < 2 {
		usage()
	}
	switch os.Args[1] {
	case "check":
		if len(os.Args) < 4 {
			usage()
		}
		os.Exit(fw.CheckMain(os.Args[2], os.Args[3]))
	case "worker":
		// worker id tier shard n out trace skip
		a := os.Args[2:]
		if len(a) < 7 {
			usage()
		}
		k, _ := strconv.Atoi(a[2])
		n, _ := strconv.Atoi(a[3])
		fw.WorkerMain(a[0], a[1], k, n, a[4], a[5], a[6])
	case "replay":
		if len(os.Args) < 3 {
			usage()
		}
		os.Exit(fw.ReplayMain(os.Args[2]))
	case "list":
		for _, id := range fw.IDs() {
			fmt.Println(id)
		}
	default:
		if h, ok := fw.Commands[os.Args[1]]; ok {
			os.Exit(h(os.Args[2:]))
		}
		usage()
	}
}

func usage() {
	fmt.Fprintln(os.Stderr, "usage: bclmc check <Cxx> quick|thorough | replay <file> | list")
	os.Exit(2)
}
