package vsched

import "fmt"

// chanCore is the scheduler's model of a channel (type-erased part).
type chanCore struct {
	name    string
	cap     int
	closed  bool
	buf     []vclock // clocks of buffered sends (values live in the typed queue)
	recvVCs []vclock // clocks of completed receives, for the k-th recv -> (k+cap)-th send edge
	closeVC vclock
	// causal-history hashing
	ident  uint64
	bufH   []uint64 // per buffered item: hash of (sender history, value)
	recvH  []uint64
	closeH uint64
}

// selCase is one channel operation of a pending send/recv/select.
type selCase struct {
	ch        *chanCore
	send      bool
	isDefault bool
	put       func()              // buffered send: move the value into the queue
	take      func(ok bool)       // receive from queue (ok) or closed (zero value)
	handoff   func(recv *selCase) // rendezvous: pass the value to the receiver's case
	accept    any                 // receiver side of a rendezvous: a func(T)
	vhash     func() uint64       // send cases: hash of the value
}

// Chan replaces `chan T` in rewritten code.
type Chan[T any] struct {
	native chan T // used when created outside a controlled execution
	core   *chanCore
	q      []T
}

var chanSeq int

// NewChan replaces make(chan T, n).
func NewChan[T any](n int) *Chan[T] {
	e := current()
	if e == nil {
		return &Chan[T]{native: make(chan T, n)}
	}
	chanSeq++
	core := &chanCore{cap: n, name: fmt.Sprintf("chan#%d(cap %d)", len(e.Trace), n)}
	if g := e.cur; g != nil {
		g.chans++
		core.ident = mix(g.ident, 3001, g.chans)
	}
	e.chansAll = append(e.chansAll, core)
	return &Chan[T]{core: core}
}

func (c *Chan[T]) sendCase(v T) *selCase {
	sc := &selCase{ch: c.core, send: true}
	sc.put = func() { c.q = append(c.q, v) }
	sc.handoff = func(recv *selCase) { recv.accept.(func(T))(v) }
	sc.vhash = func() uint64 { return hashValue(v) }
	return sc
}

func (c *Chan[T]) recvCase(dst *T, okp *bool) *selCase {
	sc := &selCase{ch: c.core}
	sc.take = func(ok bool) {
		var v T
		if ok {
			v = c.q[0]
			c.q = c.q[1:]
		}
		if dst != nil {
			*dst = v
		}
		if okp != nil {
			*okp = ok
		}
	}
	sc.accept = func(v T) {
		if dst != nil {
			*dst = v
		}
		if okp != nil {
			*okp = true
		}
	}
	return sc
}

func (c *Chan[T]) managed() *Exec {
	if c == nil {
		return current()
	}
	if c.native != nil {
		return nil
	}
	e := current()
	if e == nil {
		panic("vsched: managed channel used outside its execution")
	}
	return e
}

// Send replaces `c <- v`.
func (c *Chan[T]) Send(v T) {
	e := c.managed()
	if e == nil {
		c.native <- v
		return
	}
	if c == nil {
		e.park(e.cur, &pendingOp{kind: opSend}) // nil channel blocks forever
		return
	}
	sc := c.sendCase(v)
	e.park(e.cur, &pendingOp{kind: opSend, ch: c.core, cases: []*selCase{sc}})
}

// Recv replaces `<-c`.
func (c *Chan[T]) Recv() T {
	v, _ := c.Recv2()
	return v
}

// Recv2 replaces `v, ok := <-c`.
func (c *Chan[T]) Recv2() (T, bool) {
	e := c.managed()
	if e == nil {
		v, ok := <-c.native
		return v, ok
	}
	var v T
	var ok bool
	if c == nil {
		e.park(e.cur, &pendingOp{kind: opRecv})
		return v, false
	}
	sc := c.recvCase(&v, &ok)
	e.park(e.cur, &pendingOp{kind: opRecv, ch: c.core, cases: []*selCase{sc}})
	return v, ok
}

// Close replaces close(c).
func (c *Chan[T]) Close() {
	e := c.managed()
	if e == nil {
		close(c.native)
		return
	}
	if c == nil {
		panic("close of nil channel")
	}
	e.park(e.cur, &pendingOp{kind: opClose, ch: c.core})
}

func (c *Chan[T]) Len() int {
	if c == nil {
		return 0
	}
	if c.native != nil {
		return len(c.native)
	}
	return len(c.q)
}

func (c *Chan[T]) Cap() int {
	if c == nil {
		return 0
	}
	if c.native != nil {
		return cap(c.native)
	}
	return c.core.cap
}

// ---------------------------------------------------------------- select

// Case is one case of a rewritten select statement.
type Case struct {
	sc     *selCase
	native func() (sel nativeCase) // for channels created outside an execution
	isNat  bool
}

type nativeCase struct {
	send bool
	ch   any
	val  any
	set  func(v any, ok bool)
}

// Slot receives the value of a select receive case.
type Slot[T any] struct {
	V  T
	OK bool
}

func NewSlot[T any](c *Chan[T]) *Slot[T] { return &Slot[T]{} }

func SendCase[T any](c *Chan[T], v T) Case {
	if c != nil && c.native != nil {
		return Case{isNat: true, native: func() nativeCase { return nativeCase{send: true, ch: c.native, val: v} }}
	}
	if c == nil {
		return Case{sc: &selCase{send: true}}
	}
	return Case{sc: c.sendCase(v)}
}

func RecvCase[T any](c *Chan[T], slot *Slot[T]) Case {
	if c != nil && c.native != nil {
		return Case{isNat: true, native: func() nativeCase {
			return nativeCase{ch: c.native, set: func(v any, ok bool) {
				if slot != nil {
					if ok {
						slot.V = v.(T)
					}
					slot.OK = ok
				}
			}}
		}}
	}
	if c == nil {
		return Case{sc: &selCase{}}
	}
	if slot == nil {
		return Case{sc: c.recvCase(nil, nil)}
	}
	return Case{sc: c.recvCase(&slot.V, &slot.OK)}
}

func DefaultCase() Case { return Case{sc: &selCase{isDefault: true}} }

// Select replaces a select statement; it returns the index of the chosen case.
func Select(cases ...Case) int {
	e := current()
	anyNative := false
	for _, c := range cases {
		if c.isNat {
			anyNative = true
		}
	}
	if e == nil || anyNative {
		return nativeSelect(cases)
	}
	op := &pendingOp{kind: opSelect}
	for _, c := range cases {
		op.cases = append(op.cases, c.sc)
	}
	e.park(e.cur, op)
	return op.chosen
}

// hashValue hashes a transmitted value by its printed form (values here are strings, small
// structs, errors and struct{}).
func hashValue(v any) uint64 {
	var h uint64 = 14695981039346656037
	for _, b := range []byte(fmt.Sprintf("%T|%+v", v, v)) {
		h ^= uint64(b)
		h *= 0x100000001b3
	}
	return h
}
