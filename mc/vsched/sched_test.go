package vsched

import (
	"fmt"
	"testing"
)

// a tiny pipeline like ParseFile's: reader -> lexer -> parser, with done/err channels
func pipeline(chunks []string, failAt int, res *[]string) func() {
	return func() {
		inpc := NewChan[string](0)
		rerr := NewChan[error](0)
		perr := NewChan[error](0)
		done := NewChan[struct{}](0)
		toks := NewChan[string](2)
		Go(func() {
			for _, c := range chunks {
				switch Select(SendCase(inpc, c), RecvCase(done, nil)) {
				case 0:
					continue
				case 1:
					rerr.Send(nil)
					return
				}
			}
			rerr.Send(nil)
			inpc.Close()
		})
		Go(func() { // lexer
			n := 0
			for {
				s, ok := inpc.Recv2()
				if !ok {
					break
				}
				n++
				if n == failAt {
					toks.Send("FAIL")
					break
				}
				toks.Send(s)
			}
			toks.Close()
		})
		Go(func() { // parser
			var err error
			for {
				t, ok := toks.Recv2()
				if !ok {
					break
				}
				if t == "FAIL" {
					err = fmt.Errorf("fail")
					break
				}
				*res = append(*res, t)
			}
			if err != nil {
				done.Close()
			}
			perr.Send(err)
		})
		e1 := rerr.Recv()
		e2 := perr.Recv()
		_, _ = e1, e2
	}
}

func TestExplorePipeline(t *testing.T) {
	for bound := 0; bound <= 2; bound++ {
		var res []string
		x := &Explorer{Bound: bound, Body: func() { res = nil; pipeline([]string{"a", "b", "c"}, 0, &res)() },
			Check: func(e *Exec) (string, string) {
				if e.Deadlock {
					return "deadlock", fmt.Sprint("deadlock: ", e.Leaked)
				}
				if len(e.Panics) > 0 {
					return "panic", fmt.Sprint(e.Panics)
				}
				return fmt.Sprint(res), ""
			}}
		x.Explore()
		t.Logf("bound %d: executions=%d outcomes=%v maxpoints=%d fail=%q infra=%q", bound, x.Executions, x.Outcomes, x.MaxPoints, x.Fail, x.Infra)
		if x.Fail != "" || x.Infra != "" {
			t.Fatal(x.Fail, x.Infra)
		}
	}
	// early failure: the lexer stops, the reader must still terminate (done)
	var res []string
	x := &Explorer{Bound: 2, Body: func() { res = nil; pipeline([]string{"a", "b", "c", "d"}, 2, &res)() },
		Check: func(e *Exec) (string, string) {
			if e.Deadlock {
				return "deadlock", fmt.Sprint("deadlock: ", e.Leaked)
			}
			return "ok", ""
		}}
	x.Explore()
	t.Logf("early-fail: executions=%d outcomes=%v fail=%q trace=%v", x.Executions, x.Outcomes, x.Fail, x.FailTrace)
	if x.Infra != "" {
		t.Fatal(x.Infra)
	}
}

func TestRaceDetect(t *testing.T) {
	type box struct{ n int }
	body := func() {
		b := &box{}
		c := NewChan[int](0)
		Go(func() { *W(&b.n) = 1; c.Send(1) })
		*W(&b.n) = 2 // races with the goroutine's write
		c.Recv()
		_ = *R(&b.n) // ordered after both
	}
	x := &Explorer{Bound: 1, Opt: Options{Races: true}, Body: body, Check: func(e *Exec) (string, string) {
		if r := e.Races(); len(r) > 0 {
			return "race", fmt.Sprint(r)
		}
		return "clean", ""
	}}
	x.Explore()
	t.Logf("executions=%d outcomes=%v fail=%q", x.Executions, x.Outcomes, x.Fail)
	if x.Fail == "" {
		t.Fatal("race not detected")
	}
	// properly synchronised version
	body2 := func() {
		b := &box{}
		c := NewChan[int](0)
		Go(func() { *W(&b.n) = 1; c.Send(1) })
		c.Recv()
		*W(&b.n) = 2
	}
	x2 := &Explorer{Bound: 2, Opt: Options{Races: true}, Body: body2, Check: x.Check}
	x2.Explore()
	if x2.Fail != "" {
		t.Fatal("false race: ", x2.Fail)
	}
}

func TestMapKeys(t *testing.T) {
	seen := map[string]bool{}
	x := &Explorer{Bound: 0, Body: func() {
		m := map[string]int{"a": 1, "b": 2, "c": 3}
		seen[fmt.Sprint(MapKeys(m))] = true
	}, Check: func(e *Exec) (string, string) { return "", "" }}
	x.Explore()
	if len(seen) != 6 {
		t.Fatalf("want 6 permutations, got %v (executions %d)", seen, x.Executions)
	}
}

func TestUnboundedPipeline(t *testing.T) {
	var res []string
	mk := func(unbounded bool, bound int) *Explorer {
		return &Explorer{Unbounded: unbounded, Bound: bound, Body: func() { res = nil; pipeline([]string{"a", "b", "c"}, 0, &res)() },
			Check: func(e *Exec) (string, string) {
				if e.Deadlock {
					return "deadlock", fmt.Sprint("deadlock: ", e.Leaked)
				}
				return fmt.Sprint(res), ""
			}}
	}
	u := mk(true, 0)
	u.Explore()
	t.Logf("unbounded: executions=%d states=%d pruned=%d outcomes=%v fail=%q infra=%q", u.Executions, u.States, u.Pruned, u.Outcomes, u.Fail, u.Infra)
	if u.Fail != "" || u.Infra != "" {
		t.Fatal(u.Fail, u.Infra)
	}
	// cross-validation of the pruning: the number of distinct complete-run outcomes must equal that of a deep bounded search
	b := mk(false, 4)
	b.Explore()
	t.Logf("bound 4: executions=%d outcomes=%v", b.Executions, b.Outcomes)
	if len(b.Outcomes) != len(u.Outcomes) {
		t.Fatalf("outcome sets differ: %v vs %v", b.Outcomes, u.Outcomes)
	}
	// early failure variant must find the same verdict
	x := &Explorer{Unbounded: true, Body: func() { res = nil; pipeline([]string{"a", "b", "c", "d"}, 2, &res)() },
		Check: func(e *Exec) (string, string) {
			if e.Deadlock {
				return "deadlock", fmt.Sprint("deadlock: ", e.Leaked)
			}
			return "ok", ""
		}}
	x.Explore()
	t.Logf("early-fail unbounded: executions=%d states=%d fail=%q", x.Executions, x.States, x.Fail)
}
