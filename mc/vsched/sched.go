// Package vsched is a controlled (cooperative) scheduler for Go code whose
// channel operations, go statements, selects, locks, map iterations and shared
// memory accesses have been rewritten by mc/instr to call into this package.
//
// Exactly one managed goroutine runs at a time. Every visible operation parks
// the goroutine with its pending operation published; the driver computes the
// enabled transitions from its own model of channel/lock state, picks one
// according to the current choice sequence, performs it and lets the affected
// goroutines run to their next visible operation. Outside a run (no active
// execution) all shims fall back to native Go behaviour, so uninstrumented use
// of the rewritten package keeps working.
package vsched

import (
	"fmt"
	"runtime"
	"sort"
	"strings"
	"sync"
)

type opKind int

const (
	opStart opKind = iota
	opSend
	opRecv
	opClose
	opSelect
	opLock
	opRLock
	opWait   // WaitGroup.Wait
	opYield  // plain scheduling point (atomics, env answers)
	opChoose // data choice with n alternatives (map order)
)

type pendingOp struct {
	kind  opKind
	ch    *chanCore
	mu    *muCore
	wg    *wgCore
	cases []*selCase
	n     int // opChoose: number of alternatives
	// result slots
	chosen int
	ok     bool
	panicv any // deliver a panic in the goroutine (send on closed channel etc.)
}

type gstate struct {
	id       int
	wake     chan struct{}
	pend     *pendingOp
	finished bool
	panicked any
	stack    string
	vc       vclock
	name     string
	// causal-history hashing (state keys for unbounded exploration)
	hist   uint64 // hash of everything this goroutine has observed (its causal past)
	ident  uint64 // schedule-independent identity: hash of (parent identity, spawn index)
	spawns uint64
	chans  uint64
}

// Exec is one controlled execution.
type Exec struct {
	mu       sync.Mutex
	gs       []*gstate
	cur      *gstate // goroutine that ran last
	parked   chan *gstate
	choices  []int // prefix to replay, then extended with 0s
	step     int
	Points   []Point
	Trace    []int
	aborted  bool
	Deadlock bool
	Leaked   []string // descriptions of goroutines parked forever
	Panics   []string
	races    *raceTable
	maxSteps int
	Diverged string
	visit    func(key uint64) bool
	Pruned   bool // stopped because the state reached had been visited before
	chansAll []*chanCore
}

// Point records one scheduling decision.
type Point struct {
	Enabled    int  // number of enabled transitions
	CurEnabled int  // how many of them belong to the goroutine that ran last (listed first)
	Chosen     int  // index taken
	Data       bool // a data choice (not a scheduling choice): never a preemption
}

// Instrumented is set by the generated marker file when package bcl has been rewritten.
var Instrumented bool

var (
	activeMu sync.Mutex
	active   *Exec
)

func current() *Exec {
	activeMu.Lock()
	e := active
	activeMu.Unlock()
	return e
}

// goroutine identity: each managed goroutine stores its gstate in a map keyed by
// a token passed down explicitly... Go has no goroutine-local storage, so the
// running goroutine is, by construction, e.cur while it executes managed code.
func (e *Exec) running() *gstate { return e.cur }

type abortSignal struct{}

// park publishes op as g's pending operation, hands control to the driver and
// blocks until the driver performs a transition for g.
func (e *Exec) park(g *gstate, op *pendingOp) {
	g.pend = op
	e.parked <- g
	<-g.wake
	if e.aborted {
		panic(abortSignal{})
	}
	if op.panicv != nil {
		panic(op.panicv)
	}
}

// transition is one enabled step.
type transition struct {
	g     *gstate // primary goroutine
	peer  *gstate // rendezvous partner (nil otherwise)
	caseI int     // select case index for g (-1 if not a select)
	peerI int     // select case index for peer
	kind  string
	alt   int // opChoose alternative
}

func (e *Exec) opsOf(g *gstate) []struct {
	kind opKind
	ch   *chanCore
	idx  int
} {
	p := g.pend
	var out []struct {
		kind opKind
		ch   *chanCore
		idx  int
	}
	switch p.kind {
	case opSend, opRecv:
		out = append(out, struct {
			kind opKind
			ch   *chanCore
			idx  int
		}{p.kind, p.ch, -1})
	case opSelect:
		for i, c := range p.cases {
			if c.isDefault {
				continue
			}
			k := opRecv
			if c.send {
				k = opSend
			}
			out = append(out, struct {
				kind opKind
				ch   *chanCore
				idx  int
			}{k, c.ch, i})
		}
	}
	return out
}

// enabled lists the enabled transitions in canonical order: those of the goroutine
// that ran last first, then by ascending goroutine id.
func (e *Exec) enabled() []transition {
	var all []transition
	order := make([]*gstate, 0, len(e.gs))
	if e.cur != nil && !e.cur.finished {
		order = append(order, e.cur)
	}
	for _, g := range e.gs {
		if g != e.cur && !g.finished {
			order = append(order, g)
		}
	}
	for _, g := range order {
		p := g.pend
		if p == nil {
			continue
		}
		switch p.kind {
		case opStart, opYield:
			all = append(all, transition{g: g, caseI: -1, kind: "run"})
		case opChoose:
			for a := 0; a < p.n; a++ {
				all = append(all, transition{g: g, caseI: -1, kind: "choose", alt: a})
			}
		case opClose:
			all = append(all, transition{g: g, caseI: -1, kind: "close"})
		case opLock:
			if !p.mu.locked && p.mu.readers == 0 {
				all = append(all, transition{g: g, caseI: -1, kind: "lock"})
			}
		case opRLock:
			if !p.mu.locked {
				all = append(all, transition{g: g, caseI: -1, kind: "rlock"})
			}
		case opWait:
			if p.wg.n <= 0 {
				all = append(all, transition{g: g, caseI: -1, kind: "wait"})
			}
		case opSend, opRecv, opSelect:
			any := false
			for _, o := range e.opsOf(g) {
				c := o.ch
				if c == nil {
					continue // nil channel: never ready
				}
				if o.kind == opSend {
					switch {
					case c.closed:
						all = append(all, transition{g: g, caseI: o.idx, kind: "send-closed"})
						any = true
					case c.cap > 0 && len(c.buf) < c.cap:
						all = append(all, transition{g: g, caseI: o.idx, kind: "send-buf"})
						any = true
					case c.cap == 0:
						// rendezvous with each parked receiver on c
						for _, h := range order {
							if h == g || h.pend == nil {
								continue
							}
							for _, ho := range e.opsOf(h) {
								if ho.kind == opRecv && ho.ch == c && h.id > -1 {
									// list each pair once: from the sender's side
									all = append(all, transition{g: g, peer: h, caseI: o.idx, peerI: ho.idx, kind: "rendezvous"})
									any = true
								}
							}
						}
					}
				} else {
					switch {
					case len(c.buf) > 0:
						all = append(all, transition{g: g, caseI: o.idx, kind: "recv-buf"})
						any = true
					case c.closed:
						all = append(all, transition{g: g, caseI: o.idx, kind: "recv-closed"})
						any = true
					}
					// unbuffered receive: the pair is listed from the sender's side
				}
			}
			if p.kind == opSelect && !any {
				for i, c := range p.cases {
					if c.isDefault {
						// default is taken only if no case is ready, incl. rendezvous listed by a peer
						if !e.hasRendezvousAsReceiver(g, order) {
							all = append(all, transition{g: g, caseI: i, kind: "default"})
						}
					}
				}
			}
		}
	}
	// canonical order: transitions involving the last-run goroutine first (stable)
	if e.cur != nil {
		sort.SliceStable(all, func(i, j int) bool {
			ci := all[i].g == e.cur || all[i].peer == e.cur
			cj := all[j].g == e.cur || all[j].peer == e.cur
			return ci && !cj
		})
	}
	return all
}

func (e *Exec) hasRendezvousAsReceiver(g *gstate, order []*gstate) bool {
	for _, o := range e.opsOf(g) {
		if o.kind != opRecv || o.ch == nil || o.ch.cap != 0 {
			continue
		}
		for _, h := range order {
			if h == g || h.pend == nil {
				continue
			}
			for _, ho := range e.opsOf(h) {
				if ho.kind == opSend && ho.ch == o.ch {
					return true
				}
			}
		}
	}
	return false
}

// perform applies a transition to the model and returns the goroutines to resume.
func (e *Exec) perform(t transition) []*gstate {
	g := t.g
	p := g.pend
	setChosen := func(h *gstate, idx int) {
		if h.pend.kind == opSelect {
			h.pend.chosen = idx
		}
	}
	switch t.kind {
	case "run":
		g.hist = mix(g.hist, 1000)
		return []*gstate{g}
	case "choose":
		p.chosen = t.alt
		g.hist = mix(g.hist, 1001, uint64(t.alt))
		return []*gstate{g}
	case "close":
		c := p.ch
		if c.closed {
			p.panicv = "close of closed channel"
			return []*gstate{g}
		}
		c.closed = true
		c.closeH = g.hist
		g.hist = mix(g.hist, 1002, c.ident)
		c.closeVC = g.vc.copy()
		g.vc.tick(g.id)
		return []*gstate{g}
	case "lock":
		p.mu.locked = true
		g.hist = mix(g.hist, 1003, p.mu.hist)
		g.vc.join(p.mu.vc)
		return []*gstate{g}
	case "rlock":
		p.mu.readers++
		g.hist = mix(g.hist, 1013, p.mu.hist)
		g.vc.join(p.mu.vc)
		return []*gstate{g}
	case "wait":
		g.hist = mix(g.hist, 1005, p.wg.hist)
		g.vc.join(p.wg.vc)
		return []*gstate{g}
	case "default":
		g.hist = mix(g.hist, 1006, uint64(t.caseI))
		p.chosen = t.caseI
		return []*gstate{g}
	}
	// channel transitions
	var c *chanCore
	var sc *selCase
	if p.kind == opSelect {
		sc = p.cases[t.caseI]
		c = sc.ch
	} else {
		c = p.ch
	}
	setChosen(g, t.caseI)
	switch t.kind {
	case "send-closed":
		g.hist = mix(g.hist, 1014, c.ident)
		p.panicv = "send on closed channel"
		return []*gstate{g}
	case "send-buf":
		var put func()
		if sc != nil {
			put = sc.put
		} else {
			put = p.cases[0].put
		}
		put()
		{
			scase := sc
			if scase == nil {
				scase = p.cases[0]
			}
			c.bufH = append(c.bufH, mix(g.hist, scase.vhash()))
			if len(c.recvH) > 0 {
				g.hist = mix(g.hist, c.recvH[0])
				c.recvH = c.recvH[1:]
			}
			g.hist = mix(g.hist, 1007, c.ident, uint64(t.caseI+1))
		}
		c.buf = append(c.buf, g.vc.copy())
		// k-th receive happens-before (k+cap)-th send completes
		if len(c.recvVCs) > 0 {
			g.vc.join(c.recvVCs[0])
			c.recvVCs = c.recvVCs[1:]
		}
		g.vc.tick(g.id)
		return []*gstate{g}
	case "recv-buf":
		var take func(ok bool)
		if sc != nil {
			take = sc.take
		} else {
			take = p.cases[0].take
		}
		take(true)
		p.ok = true
		g.hist = mix(g.hist, 1008, c.ident, uint64(t.caseI+1), c.bufH[0])
		c.bufH = c.bufH[1:]
		c.recvH = append(c.recvH, g.hist)
		g.vc.join(c.buf[0])
		c.buf = c.buf[1:]
		c.recvVCs = append(c.recvVCs, g.vc.copy())
		g.vc.tick(g.id)
		return []*gstate{g}
	case "recv-closed":
		var take func(ok bool)
		if sc != nil {
			take = sc.take
		} else {
			take = p.cases[0].take
		}
		take(false)
		p.ok = false
		g.hist = mix(g.hist, 1009, c.ident, uint64(t.caseI+1), c.closeH)
		g.vc.join(c.closeVC)
		return []*gstate{g}
	case "rendezvous":
		h := t.peer
		hp := h.pend
		setChosen(h, t.peerI)
		var sendCase, recvCase *selCase
		if sc != nil {
			sendCase = sc
		} else {
			sendCase = p.cases[0]
		}
		if hp.kind == opSelect {
			recvCase = hp.cases[t.peerI]
		} else {
			recvCase = hp.cases[0]
		}
		sendCase.handoff(recvCase)
		hp.ok = true
		{
			sh, rh := g.hist, h.hist
			g.hist = mix(sh, 1010, c.ident, uint64(t.caseI+1), rh)
			h.hist = mix(rh, 1011, c.ident, uint64(t.peerI+1), sh, sendCase.vhash())
		}
		// unbuffered: send happens-before receive completes, and receive before send completes
		sv, rv := g.vc.copy(), h.vc.copy()
		g.vc.join(rv)
		h.vc.join(sv)
		g.vc.tick(g.id)
		h.vc.tick(h.id)
		if h == e.cur {
			return []*gstate{h, g}
		}
		return []*gstate{g, h}
	}
	panic("vsched: unknown transition " + t.kind)
}

// resume lets g run until it parks again or finishes.
func (e *Exec) resume(g *gstate) {
	e.cur = g
	g.pend = nil
	g.wake <- struct{}{}
	h := <-e.parked
	if h != g {
		panic(fmt.Sprintf("vsched: goroutine %d parked while %d was running (unmanaged concurrency)", h.id, g.id))
	}
}

// Options of one execution.
type Options struct {
	MaxSteps int
	Races    bool
	// Visit, if set, is called with the key of the global state at every scheduling point
	// after the replayed prefix; returning false prunes the execution there.
	Visit func(key uint64) bool
}

// Run executes body under the controlled scheduler following the given choice
// prefix (then taking choice 0). It returns the execution record.
func Run(prefix []int, opt Options, body func()) *Exec {
	e := &Exec{parked: make(chan *gstate), choices: prefix, maxSteps: opt.MaxSteps}
	if e.maxSteps == 0 {
		e.maxSteps = 100000
	}
	if opt.Races {
		e.races = newRaceTable()
	}
	e.visit = opt.Visit
	activeMu.Lock()
	if active != nil {
		activeMu.Unlock()
		panic("vsched: nested Run")
	}
	active = e
	activeMu.Unlock()
	defer func() {
		activeMu.Lock()
		active = nil
		activeMu.Unlock()
	}()

	e.spawn(body, "main", nil)
	for {
		en := e.enabled()
		if len(en) == 0 {
			break
		}
		if e.step >= e.maxSteps {
			e.Diverged = "step limit reached"
			break
		}
		if e.visit != nil && e.step >= len(e.choices) {
			if !e.visit(e.StateKey()) {
				e.Pruned = true
				break
			}
		}
		choice := 0
		if e.step < len(e.choices) {
			choice = e.choices[e.step]
			if choice >= len(en) {
				e.Diverged = fmt.Sprintf("replay divergence at step %d: choice %d of %d enabled", e.step, choice, len(en))
				break
			}
		}
		curN := 0
		for _, t := range en {
			if t.g == e.cur || t.peer == e.cur {
				curN++
			}
		}
		data := en[0].kind == "choose"
		e.Points = append(e.Points, Point{Enabled: len(en), CurEnabled: curN, Chosen: choice, Data: data})
		e.Trace = append(e.Trace, choice)
		e.step++
		for _, g := range e.perform(en[choice]) {
			e.resume(g)
		}
	}
	// quiescent: everything finished, or deadlock / leak
	for _, g := range e.gs {
		if !g.finished && !e.Pruned && e.Diverged == "" {
			e.Deadlock = true
			e.Leaked = append(e.Leaked, fmt.Sprintf("g%d(%s) blocked at %s", g.id, g.name, describe(g.pend)))
		}
	}
	// release parked goroutines so nothing accumulates
	e.aborted = true
	for _, g := range e.gs {
		if !g.finished {
			g.wake <- struct{}{}
			<-e.parked
		}
	}
	return e
}

func describe(p *pendingOp) string {
	if p == nil {
		return "?"
	}
	switch p.kind {
	case opSend:
		return "send on " + p.ch.name
	case opRecv:
		return "receive from " + p.ch.name
	case opSelect:
		var s []string
		for _, c := range p.cases {
			switch {
			case c.isDefault:
				s = append(s, "default")
			case c.send:
				s = append(s, "send "+c.ch.name)
			default:
				s = append(s, "recv "+c.ch.name)
			}
		}
		return "select{" + strings.Join(s, ",") + "}"
	case opLock, opRLock:
		return "lock"
	case opWait:
		return "WaitGroup.Wait"
	case opClose:
		return "close"
	}
	return fmt.Sprint("op", p.kind)
}

// spawn creates a managed goroutine parked at "start".
func (e *Exec) spawn(f func(), name string, parent *gstate) *gstate {
	g := &gstate{id: len(e.gs), wake: make(chan struct{}), name: name, vc: vclock{}}
	if parent != nil {
		g.vc = parent.vc.copy()
		parent.vc.tick(parent.id)
	}
	g.vc.tick(g.id)
	if parent != nil {
		parent.spawns++
		g.ident = mix(parent.ident, 2001, parent.spawns)
		g.hist = mix(parent.hist, 2002, parent.spawns)
		parent.hist = mix(parent.hist, 2003, parent.spawns)
	} else {
		g.ident, g.hist = 1, 1
	}
	g.pend = &pendingOp{kind: opStart}
	e.gs = append(e.gs, g)
	go func() {
		<-g.wake
		defer func() {
			if r := recover(); r != nil {
				if _, ok := r.(abortSignal); !ok {
					g.panicked = r
					buf := make([]byte, 4096)
					buf = buf[:runtime.Stack(buf, false)]
					e.Panics = append(e.Panics, fmt.Sprintf("g%d(%s): %v", g.id, g.name, r))
					g.stack = string(buf)
				}
			}
			g.finished = true
			g.pend = nil
			e.parked <- g
		}()
		if e.aborted {
			return
		}
		f()
	}()
	return g
}

// Go starts f as a managed goroutine (rewritten `go` statement).
func Go(f func()) {
	e := current()
	if e == nil {
		go f()
		return
	}
	e.spawn(f, callerName(), e.cur)
}

func callerName() string {
	pc, _, line, ok := runtime.Caller(2)
	if !ok {
		return "?"
	}
	fn := runtime.FuncForPC(pc)
	n := fn.Name()
	if i := strings.LastIndex(n, "/"); i >= 0 {
		n = n[i+1:]
	}
	return fmt.Sprintf("%s:%d", n, line)
}

// Yield is a plain scheduling point (environment answers, atomics).
func Yield() {
	e := current()
	if e == nil {
		return
	}
	e.park(e.cur, &pendingOp{kind: opYield})
}

// Choose is a data choice point with n alternatives (e.g. a map iteration order).
// Outside a run it returns 0.
func Choose(n int) int {
	e := current()
	if e == nil || n <= 1 {
		return 0
	}
	op := &pendingOp{kind: opChoose, n: n}
	e.park(e.cur, op)
	return op.chosen
}

// Active reports whether a controlled execution is in progress.
func Active() bool { return current() != nil }

// mix combines hashes (order-sensitive).
func mix(h uint64, xs ...uint64) uint64 {
	for _, x := range xs {
		h ^= x + 0x9e3779b97f4a7c15 + (h << 6) + (h >> 2)
		h *= 0x100000001b3
	}
	return h
}

// StateKey hashes the global state: every goroutine's identity, causal history and
// status, and every channel's buffered items. Two executions reaching the same key have the
// same futures provided the program is free of data races (each goroutine is a deterministic
// function of what it observed, and what it observed is what its history hash covers).
func (e *Exec) StateKey() uint64 {
	type ent struct{ id, h uint64 }
	ents := make([]ent, 0, len(e.gs)+len(e.chansAll))
	for _, g := range e.gs {
		f := uint64(0)
		if g.finished {
			f = 1
		}
		ents = append(ents, ent{g.ident, mix(g.hist, f)})
	}
	for _, c := range e.chansAll {
		h := uint64(len(c.bufH))
		if c.closed {
			h = mix(h, 7)
		}
		h = mix(h, c.bufH...)
		ents = append(ents, ent{c.ident, h})
	}
	sort.Slice(ents, func(i, j int) bool {
		if ents[i].id != ents[j].id {
			return ents[i].id < ents[j].id
		}
		return ents[i].h < ents[j].h
	})
	var k uint64 = 14695981039346656037
	for _, x := range ents {
		k = mix(k, x.id, x.h)
	}
	return k
}
