package vsched

import (
	"fmt"
	"runtime"
	"sort"
	"strings"
	"unsafe"
)

// vclock is a vector clock: goroutine id -> logical time.
type vclock map[int]int

func (v vclock) copy() vclock {
	c := make(vclock, len(v))
	for k, x := range v {
		c[k] = x
	}
	return c
}

func (v vclock) join(o vclock) {
	for k, x := range o {
		if x > v[k] {
			v[k] = x
		}
	}
}

func (v vclock) tick(id int) { v[id]++ }

// epoch of one access
type access struct {
	g     int
	clock int
	pc    uintptr
}

func (a *access) site() string { return siteOf(a.pc) }

func siteOf(pc uintptr) string {
	fr, _ := runtime.CallersFrames([]uintptr{pc}).Next()
	file := fr.File
	if i := strings.LastIndex(file, "/"); i >= 0 {
		file = file[i+1:]
	}
	return fmt.Sprintf("%s:%d", file, fr.Line)
}

func callerPC(skip int) uintptr {
	var pcs [1]uintptr
	runtime.Callers(skip+1, pcs[:])
	return pcs[0]
}

type varState struct {
	w     *access
	reads map[int]*access
}

// Race is one unordered conflicting pair of accesses.
type Race struct {
	First, Second string // "g<id> <r|w> <site>"
}

type raceTable struct {
	vars  map[unsafe.Pointer]*varState
	keep  []unsafe.Pointer
	races map[string]Race
	n     int
}

func newRaceTable() *raceTable {
	return &raceTable{vars: map[unsafe.Pointer]*varState{}, races: map[string]Race{}}
}

func site(skip int) string {
	_, file, line, ok := runtime.Caller(skip)
	if !ok {
		return "?"
	}
	if i := strings.LastIndex(file, "/"); i >= 0 {
		file = file[i+1:]
	}
	return fmt.Sprintf("%s:%d", file, line)
}

func (e *Exec) onAccess(p unsafe.Pointer, write bool, pc uintptr) {
	rt := e.races
	g := e.cur
	if rt == nil || g == nil {
		return
	}
	rt.n++
	vs := rt.vars[p]
	if vs == nil {
		vs = &varState{reads: map[int]*access{}}
		rt.vars[p] = vs
	}
	me := &access{g: g.id, clock: g.vc[g.id], pc: pc}
	hb := func(a *access) bool { return a.g == g.id || a.clock <= g.vc[a.g] }
	report := func(a *access, aw bool) {
		k1 := fmt.Sprintf("%s %s", rw(aw), a.site())
		k2 := fmt.Sprintf("%s %s", rw(write), siteOf(pc))
		key := k1 + " | " + k2
		if k2 < k1 {
			key = k2 + " | " + k1
		}
		if _, ok := rt.races[key]; !ok {
			rt.races[key] = Race{First: fmt.Sprintf("g%d %s", a.g, k1), Second: fmt.Sprintf("g%d %s", g.id, k2)}
		}
	}
	if vs.w != nil && !hb(vs.w) {
		report(vs.w, true)
	}
	if write {
		for _, r := range vs.reads {
			if !hb(r) {
				report(r, false)
			}
		}
		vs.w = me
		vs.reads = map[int]*access{}
	} else {
		vs.reads[g.id] = me
	}
}

func rw(w bool) string {
	if w {
		return "write"
	}
	return "read"
}

// Races returns the distinct races of the execution, sorted.
func (e *Exec) Races() []Race {
	if e.races == nil {
		return nil
	}
	var keys []string
	for k := range e.races.races {
		keys = append(keys, k)
	}
	sort.Strings(keys)
	var out []Race
	for _, k := range keys {
		out = append(out, e.races.races[k])
	}
	return out
}

// AccessEvents returns how many instrumented accesses were checked.
func (e *Exec) AccessEvents() int {
	if e.races == nil {
		return 0
	}
	return e.races.n
}

// R marks a read of *p (rewritten shared-memory read). It returns p.
func R[T any](p *T) *T {
	if e := current(); e != nil && e.races != nil && len(e.gs) > 1 {
		e.onAccess(unsafe.Pointer(p), false, callerPC(2))
	}
	return p
}

// W marks a write of *p (rewritten shared-memory write). It returns p.
func W[T any](p *T) *T {
	if e := current(); e != nil && e.races != nil && len(e.gs) > 1 {
		e.onAccess(unsafe.Pointer(p), true, callerPC(2))
	}
	return p
}

// AppendTo marks the write that append(s, ...) makes into the spare capacity of s's array (if there is any):
// a write of the element just past len(s). It returns s.
func AppendTo[T any](s []T) []T {
	if cap(s) > len(s) {
		if e := current(); e != nil && e.races != nil && len(e.gs) > 1 {
			e.onAccess(unsafe.Pointer(&s[:len(s)+1][len(s)]), true, callerPC(2))
		}
	}
	return s
}
