// Package sync is the stand-in for the standard sync package in rewritten code.
package sync

import (
	stdsync "sync"

	"verif/mc/vsched"
)

type Mutex struct{ m vsched.Mu }

func (m *Mutex) Lock()         { m.m.Lock() }
func (m *Mutex) Unlock()       { m.m.Unlock() }
func (m *Mutex) TryLock() bool { return m.m.TryLock() }

type RWMutex struct{ m vsched.Mu }

func (m *RWMutex) Lock()    { m.m.Lock() }
func (m *RWMutex) Unlock()  { m.m.Unlock() }
func (m *RWMutex) RLock()   { m.m.RLock() }
func (m *RWMutex) RUnlock() { m.m.RUnlock() }

type Locker = stdsync.Locker

type WaitGroup struct{ w vsched.WG }

func (w *WaitGroup) Add(n int) { w.w.Add(n) }
func (w *WaitGroup) Done()     { w.w.Done() }
func (w *WaitGroup) Wait()     { w.w.Wait() }

type Once struct {
	m    vsched.Mu
	done bool
}

func (o *Once) Do(f func()) {
	o.m.Lock()
	defer o.m.Unlock()
	if !o.done {
		o.done = true
		f()
	}
}

// Pool and Map keep their standard behaviour (not scheduling-relevant for correctness of the model:
// their internal synchronisation is invisible, so accesses through them are not checked).
type Pool = stdsync.Pool
type Map = stdsync.Map
