// Package atomic is the stand-in for sync/atomic in rewritten code: every
// operation is a scheduling point and is executed atomically.
package atomic

import "verif/mc/vsched"

type Int32 struct{ v int32 }

func (x *Int32) Load() int32        { vsched.Yield(); return x.v }
func (x *Int32) Store(v int32)      { vsched.Yield(); x.v = v }
func (x *Int32) Add(d int32) int32  { vsched.Yield(); x.v += d; return x.v }
func (x *Int32) Swap(v int32) int32 { vsched.Yield(); o := x.v; x.v = v; return o }
func (x *Int32) CompareAndSwap(o, n int32) bool {
	vsched.Yield()
	if x.v == o {
		x.v = n
		return true
	}
	return false
}

type Int64 struct{ v int64 }

func (x *Int64) Load() int64        { vsched.Yield(); return x.v }
func (x *Int64) Store(v int64)      { vsched.Yield(); x.v = v }
func (x *Int64) Add(d int64) int64  { vsched.Yield(); x.v += d; return x.v }
func (x *Int64) Swap(v int64) int64 { vsched.Yield(); o := x.v; x.v = v; return o }
func (x *Int64) CompareAndSwap(o, n int64) bool {
	vsched.Yield()
	if x.v == o {
		x.v = n
		return true
	}
	return false
}

type Bool struct{ v bool }

func (x *Bool) Load() bool       { vsched.Yield(); return x.v }
func (x *Bool) Store(v bool)     { vsched.Yield(); x.v = v }
func (x *Bool) Swap(v bool) bool { vsched.Yield(); o := x.v; x.v = v; return o }
func (x *Bool) CompareAndSwap(o, n bool) bool {
	vsched.Yield()
	if x.v == o {
		x.v = n
		return true
	}
	return false
}

type Pointer[T any] struct{ p *T }

func (x *Pointer[T]) Load() *T     { vsched.Yield(); return x.p }
func (x *Pointer[T]) Store(p *T)   { vsched.Yield(); x.p = p }
func (x *Pointer[T]) Swap(p *T) *T { vsched.Yield(); o := x.p; x.p = p; return o }
func (x *Pointer[T]) CompareAndSwap(o, n *T) bool {
	vsched.Yield()
	if x.p == o {
		x.p = n
		return true
	}
	return false
}

type Value struct{ v any }

func (x *Value) Load() any   { vsched.Yield(); return x.v }
func (x *Value) Store(v any) { vsched.Yield(); x.v = v }

func AddInt32(p *int32, d int32) int32 { vsched.Yield(); *p += d; return *p }
func AddInt64(p *int64, d int64) int64 { vsched.Yield(); *p += d; return *p }
func LoadInt32(p *int32) int32         { vsched.Yield(); return *p }
func LoadInt64(p *int64) int64         { vsched.Yield(); return *p }
func StoreInt32(p *int32, v int32)     { vsched.Yield(); *p = v }
func StoreInt64(p *int64, v int64)     { vsched.Yield(); *p = v }
func CompareAndSwapInt32(p *int32, o, n int32) bool {
	vsched.Yield()
	if *p == o {
		*p = n
		return true
	}
	return false
}
func CompareAndSwapInt64(p *int64, o, n int64) bool {
	vsched.Yield()
	if *p == o {
		*p = n
		return true
	}
	return false
}
