package vsched

import (
	"cmp"
	"sort"
)

// MapKeys returns the keys of m in an order chosen by the explorer: the iteration
// order of a Go map is unspecified, so every permutation is a legal behaviour.
// Outside a controlled execution the keys come in sorted order.
func MapKeys[K cmp.Ordered, V any](m map[K]V) []K {
	keys := make([]K, 0, len(m))
	for k := range m {
		keys = append(keys, k)
	}
	sort.Slice(keys, func(i, j int) bool { return keys[i] < keys[j] })
	if !Active() || len(keys) < 2 {
		return keys
	}
	// choose a permutation by successive choices (factorial number system)
	out := make([]K, 0, len(keys))
	rest := keys
	for len(rest) > 1 {
		i := Choose(len(rest))
		out = append(out, rest[i])
		rest = append(append([]K{}, rest[:i]...), rest[i+1:]...)
	}
	return append(out, rest...)
}

// ---------------------------------------------------------------- lock model

type muCore struct {
	locked  bool
	readers int
	vc      vclock
	hist    uint64
}

type wgCore struct {
	n    int
	vc   vclock
	hist uint64
}

// LockOp etc. are used by the sync shim package.
type Mu struct {
	core   muCore
	native chanMutex
}

type chanMutex struct{ ch chan struct{} }

func (m *Mu) Lock() {
	e := current()
	if e == nil {
		m.nativeLock()
		return
	}
	if m.core.vc == nil {
		m.core.vc = vclock{}
	}
	e.park(e.cur, &pendingOp{kind: opLock, mu: &m.core})
}

func (m *Mu) Unlock() {
	e := current()
	if e == nil {
		m.nativeUnlock()
		return
	}
	if !m.core.locked {
		panic("sync: unlock of unlocked mutex")
	}
	m.core.locked = false
	m.core.hist = mix(m.core.hist, e.cur.hist)
	e.cur.hist = mix(e.cur.hist, 1004)
	m.core.vc.join(e.cur.vc)
	e.cur.vc.tick(e.cur.id)
}

func (m *Mu) RLock() {
	e := current()
	if e == nil {
		m.nativeLock()
		return
	}
	if m.core.vc == nil {
		m.core.vc = vclock{}
	}
	e.park(e.cur, &pendingOp{kind: opRLock, mu: &m.core})
}

func (m *Mu) RUnlock() {
	e := current()
	if e == nil {
		m.nativeUnlock()
		return
	}
	m.core.readers--
	m.core.hist = mix(m.core.hist, e.cur.hist)
	m.core.vc.join(e.cur.vc)
	e.cur.vc.tick(e.cur.id)
}

func (m *Mu) TryLock() bool {
	e := current()
	if e == nil {
		return m.nativeTry()
	}
	if m.core.locked || m.core.readers > 0 {
		return false
	}
	if m.core.vc == nil {
		m.core.vc = vclock{}
	}
	m.core.locked = true
	e.cur.vc.join(m.core.vc)
	return true
}

var nativeInit = make(chan struct{}, 1)

func (m *Mu) nch() chan struct{} {
	nativeInit <- struct{}{}
	if m.native.ch == nil {
		m.native.ch = make(chan struct{}, 1)
	}
	<-nativeInit
	return m.native.ch
}
func (m *Mu) nativeLock()   { m.nch() <- struct{}{} }
func (m *Mu) nativeUnlock() { <-m.nch() }
func (m *Mu) nativeTry() bool {
	select {
	case m.nch() <- struct{}{}:
		return true
	default:
		return false
	}
}

// WG models sync.WaitGroup.
type WG struct {
	core   wgCore
	native struct {
		mu Mu
		n  int
		ch chan struct{}
	}
}

func (w *WG) Add(n int) {
	e := current()
	if e == nil {
		w.native.mu.nativeLock()
		w.native.n += n
		if w.native.n == 0 && w.native.ch != nil {
			close(w.native.ch)
			w.native.ch = nil
		}
		w.native.mu.nativeUnlock()
		return
	}
	if w.core.vc == nil {
		w.core.vc = vclock{}
	}
	w.core.n += n
	if n < 0 {
		w.core.hist = mix(w.core.hist, e.cur.hist)
		w.core.vc.join(e.cur.vc)
		e.cur.vc.tick(e.cur.id)
	}
	if w.core.n < 0 {
		panic("sync: negative WaitGroup counter")
	}
}

func (w *WG) Done() { w.Add(-1) }

func (w *WG) Wait() {
	e := current()
	if e == nil {
		w.native.mu.nativeLock()
		if w.native.n == 0 {
			w.native.mu.nativeUnlock()
			return
		}
		if w.native.ch == nil {
			w.native.ch = make(chan struct{})
		}
		ch := w.native.ch
		w.native.mu.nativeUnlock()
		<-ch
		return
	}
	if w.core.vc == nil {
		w.core.vc = vclock{}
	}
	e.park(e.cur, &pendingOp{kind: opWait, wg: &w.core})
}

// ---------------------------------------------------------------- knobs

type knob struct {
	p   *int
	def int
}

var knobs = map[string]*knob{}

// RegisterKnob is called by the generated marker file for every integer constant of the
// rewritten package that was turned into a variable.
func RegisterKnob(name string, p *int) { knobs[name] = &knob{p: p, def: *p} }

// SetKnob sets a knob (ok=false if the constant does not exist in the rewritten package);
// v <= 0 restores the value written in the source.
func SetKnob(name string, v int) bool {
	k, ok := knobs[name]
	if !ok {
		return false
	}
	if v <= 0 {
		v = k.def
	}
	*k.p = v
	return true
}

// KnobDefault reports the value the constant has in the source.
func KnobDefault(name string) (int, bool) {
	k, ok := knobs[name]
	if !ok {
		return 0, false
	}
	return k.def, true
}

// ---------------------------------------------------------------- the number of CPUs

// cpus is what the rewritten package is told when it asks runtime.GOMAXPROCS(0) / runtime.NumCPU(): an answer of the
// environment that the harness fixes per exploration (the cooperative scheduler runs one goroutine at a time whatever
// the answer, so the answer is observable only through what the code does with it).
var cpus = 4

// SetCPUs fixes the answer (n <= 0: back to the default 4).
func SetCPUs(n int) {
	if n <= 0 {
		n = 4
	}
	cpus = n
}

// GOMAXPROCS stands in for runtime.GOMAXPROCS: a positive argument changes the answer, as the real one does.
func GOMAXPROCS(n int) int {
	old := cpus
	if n > 0 {
		cpus = n
	}
	return old
}

// NumCPU stands in for runtime.NumCPU.
func NumCPU() int { return cpus }
