package vsched

import "reflect"

// nativeSelect implements Select for channels created outside a controlled execution.
func nativeSelect(cases []Case) int {
	rc := make([]reflect.SelectCase, len(cases))
	nat := make([]nativeCase, len(cases))
	for i, c := range cases {
		switch {
		case c.isNat:
			n := c.native()
			nat[i] = n
			if n.send {
				rc[i] = reflect.SelectCase{Dir: reflect.SelectSend, Chan: reflect.ValueOf(n.ch), Send: reflect.ValueOf(n.val)}
			} else {
				rc[i] = reflect.SelectCase{Dir: reflect.SelectRecv, Chan: reflect.ValueOf(n.ch)}
			}
		case c.sc != nil && c.sc.isDefault:
			rc[i] = reflect.SelectCase{Dir: reflect.SelectDefault}
		default:
			// nil channel: never ready
			rc[i] = reflect.SelectCase{Dir: reflect.SelectRecv}
		}
	}
	i, v, ok := reflect.Select(rc)
	if cases[i].isNat && !nat[i].send && nat[i].set != nil {
		if ok {
			nat[i].set(v.Interface(), true)
		} else {
			nat[i].set(nil, false)
		}
	}
	return i
}
