package vsched

import "fmt"

// Explorer enumerates all executions of Body whose number of preemptions does not
// exceed Bound (iterative context bounding, stateless depth-first search over
// choice sequences).
type Explorer struct {
	// Delay: count every non-default choice as a deviation (delay bounding: a deterministic
	// scheduler plus at most Bound deviations) instead of counting preemptions only.
	Delay bool
	Bound int
	// Unbounded explores ALL interleavings (no preemption bound) with state-key pruning: an
	// execution is cut as soon as it reaches a global state (causal-history hash) that was
	// reached before; from every distinct state every enabled transition is taken.
	Unbounded bool
	States    int // distinct states visited (Unbounded)
	Pruned    int // executions cut at a visited state
	// RootShard/RootShards split one exploration over several workers: the alternatives
	// branching off the default execution are dealt round-robin; shard 0 also owns the default execution.
	RootShard, RootShards int
	Opt                   Options
	Body                  func()
	// Check judges one execution; it returns an outcome label and, if the execution
	// violates the property, a failure description.
	Check func(e *Exec) (outcome string, fail string)
	// NoConfirm: do not re-run a failing schedule in this process (used when the process itself is the unit
	// that is re-run: a failure that depends on the process being fresh cannot repeat inside it)
	NoConfirm bool
	MaxExec   int // stop after that many executions (0 = no limit); Capped tells
	Stop      func() bool

	Executions int
	Steps      int64 // scheduling decisions taken, summed over executions
	Capped     bool
	MaxPoints  int
	Outcomes   map[string]int
	Fail       string
	FailTrace  []int
	Infra      string
	seen       map[uint64]struct{}
}

func (x *Explorer) preempts(p Point, choice int) bool {
	if x.Delay {
		return !p.Data && choice > 0
	}
	return !p.Data && p.CurEnabled > 0 && choice >= p.CurEnabled
}

// Explore runs the search. It stops at the first failure.
func (x *Explorer) Explore() {
	x.Outcomes = map[string]int{}
	if x.Unbounded {
		x.seen = map[uint64]struct{}{}
		x.exploreU(nil)
		x.States = len(x.seen)
		return
	}
	x.explore(nil)
}

func (x *Explorer) exploreU(prefix []int) {
	if x.Fail != "" || x.Infra != "" || x.Capped {
		return
	}
	if (x.MaxExec > 0 && x.Executions >= x.MaxExec) || (x.Stop != nil && x.Executions%64 == 0 && x.Stop()) {
		x.Capped = true
		return
	}
	opt := x.Opt
	opt.Visit = func(k uint64) bool {
		if _, ok := x.seen[k]; ok {
			return false
		}
		x.seen[k] = struct{}{}
		return true
	}
	e := Run(prefix, opt, x.Body)
	x.Executions++
	if e.Diverged != "" {
		x.Infra = e.Diverged
		x.FailTrace = append([]int{}, prefix...)
		return
	}
	x.Steps += int64(len(e.Points))
	if len(e.Points) > x.MaxPoints {
		x.MaxPoints = len(e.Points)
	}
	if e.Pruned {
		x.Pruned++
	} else {
		outcome, fail := x.Check(e)
		x.Outcomes[outcome]++
		if fail != "" {
			e2 := Run(e.Trace, x.Opt, x.Body)
			o2, f2 := x.Check(e2)
			if e2.Diverged != "" || o2 != outcome || f2 != fail {
				x.Infra = fmt.Sprintf("schedule not reproducible: first %q/%q, replay %q/%q %s", outcome, fail, o2, f2, e2.Diverged)
				x.FailTrace = append([]int{}, e.Trace...)
				return
			}
			x.Fail = fail
			x.FailTrace = append([]int{}, e.Trace...)
			return
		}
	}
	choices := e.Trace
	for i := len(prefix); i < len(e.Points); i++ {
		p := e.Points[i]
		for alt := 1; alt < p.Enabled; alt++ {
			x.exploreU(append(append([]int{}, choices[:i]...), alt))
			if x.Fail != "" || x.Infra != "" || x.Capped {
				return
			}
		}
	}
}

func (x *Explorer) explore(prefix []int) bool {
	if x.Fail != "" || x.Infra != "" || x.Capped {
		return false
	}
	if (x.MaxExec > 0 && x.Executions >= x.MaxExec) || (x.Stop != nil && x.Executions%64 == 0 && x.Stop()) {
		x.Capped = true
		return false
	}
	e := Run(prefix, x.Opt, x.Body)
	x.Executions++
	if e.Diverged != "" {
		x.Infra = e.Diverged
		x.FailTrace = append([]int{}, prefix...)
		return false
	}
	x.Steps += int64(len(e.Points))
	if len(e.Points) > x.MaxPoints {
		x.MaxPoints = len(e.Points)
	}
	outcome, fail := x.Check(e)
	x.Outcomes[outcome]++
	if fail != "" {
		if x.NoConfirm {
			x.Fail = fail
			x.FailTrace = append([]int{}, e.Trace...)
			return false
		}
		// determinism: the same schedule must give the same verdict
		e2 := Run(e.Trace, x.Opt, x.Body)
		o2, f2 := x.Check(e2)
		if e2.Diverged != "" || o2 != outcome || f2 != fail {
			x.Infra = fmt.Sprintf("schedule not reproducible: first %q/%q, replay %q/%q %s", outcome, fail, o2, f2, e2.Diverged)
			x.FailTrace = append([]int{}, e.Trace...)
			return false
		}
		x.Fail = fail
		x.FailTrace = append([]int{}, e.Trace...)
		return false
	}
	choices := e.Trace
	cost := 0
	for i := 0; i < len(prefix) && i < len(e.Points); i++ {
		if x.preempts(e.Points[i], choices[i]) {
			cost++
		}
	}
	rootN := 0
	for i := len(prefix); i < len(e.Points); i++ {
		p := e.Points[i]
		for alt := 1; alt < p.Enabled; alt++ {
			c := cost
			if x.preempts(p, alt) {
				c++
			}
			if c > x.Bound {
				continue
			}
			if prefix == nil && x.RootShards > 1 {
				rootN++
				if rootN%x.RootShards != x.RootShard {
					continue
				}
			}
			next := append(append([]int{}, choices[:i]...), alt)
			if !x.explore(next) && (x.Fail != "" || x.Infra != "" || x.Capped) {
				return false
			}
		}
		if x.preempts(p, choices[i]) {
			cost++
		}
	}
	return true
}
