// Package impl wraps the public API of github.com/wkhere/bcl (the real code from
// /repo's working tree) into observation records.
package impl

import (
	"bytes"
	"fmt"
	"io"
	"math"
	"sort"
	"strings"

	"github.com/wkhere/bcl"
)

// Parsed is the observation of Parse.
type Parsed struct {
	Prog *bcl.Prog
	Err  error
	Log  string // diagnostics written to the log writer
	Out  string // text written to the output writer during parse (disasm/stats only)
}

// Scribble overwrites a buffer that was handed to the library as input: the caller owns it again once the
// call has returned (a read buffer is reused for the next input), so nothing the call returned may still
// point into it. Every wrapper below does this before its results are looked at.
func Scribble(b []byte) {
	for i := range b {
		b[i] = '#'
	}
}

func Parse(src string, opts ...bcl.Option) Parsed {
	var out, log bytes.Buffer
	o := append([]bcl.Option{bcl.OptOutput(&out), bcl.OptLogger(&log)}, opts...)
	in := []byte(src)
	p, err := bcl.Parse(in, "input", o...)
	Scribble(in)
	return Parsed{p, err, log.String(), out.String()}
}

func ParseNamed(src, name string) Parsed {
	var out, log bytes.Buffer
	in := []byte(src)
	p, err := bcl.Parse(in, name, bcl.OptOutput(&out), bcl.OptLogger(&log))
	Scribble(in)
	return Parsed{p, err, log.String(), out.String()}
}

// Dump returns the dump bytes of an accepted program.
func Dump(p *bcl.Prog) ([]byte, error) {
	var b bytes.Buffer
	err := p.Dump(&b)
	return b.Bytes(), err
}

// Ran is the observation of an execution.
type Ran struct {
	Blocks  []bcl.Block
	Binding bcl.Binding
	Err     error
	Out     string
	Log     string
}

func (r Ran) ErrText() string {
	if r.Err == nil {
		return ""
	}
	return r.Err.Error()
}

// Interpret runs source through bcl.Interpret capturing everything observable.
func Interpret(src string, opts ...bcl.Option) Ran {
	var out, log bytes.Buffer
	o := append([]bcl.Option{bcl.OptOutput(&out), bcl.OptLogger(&log)}, opts...)
	in := []byte(src)
	bl, bi, err := bcl.Interpret(in, o...)
	Scribble(in)
	return Ran{bl, bi, err, out.String(), log.String()}
}

// LoadExec loads a dump and executes it.
func LoadExec(dump []byte, opts ...bcl.Option) (Ran, error) {
	var out, log bytes.Buffer
	o := append([]bcl.Option{bcl.OptOutput(&out), bcl.OptLogger(&log)}, opts...)
	p, err := bcl.LoadProg(bytes.NewReader(dump), "input", o...)
	if err != nil {
		return Ran{Out: out.String(), Log: log.String()}, err
	}
	bl, bi, xerr := bcl.Execute(p, o...)
	return Ran{bl, bi, xerr, out.String(), log.String()}, nil
}

// Load loads a dump from r with output/log captured.
func Load(r io.Reader, opts ...bcl.Option) (*bcl.Prog, error, string, string) {
	var out, log bytes.Buffer
	o := append([]bcl.Option{bcl.OptOutput(&out), bcl.OptLogger(&log)}, opts...)
	p, err := bcl.LoadProg(r, "input", o...)
	return p, err, out.String(), log.String()
}

// ---------------------------------------------------------------- canonical text of results

// ValStr renders a field value with its dynamic type, floats by bits-exact formatting.
func ValStr(v any) string {
	switch x := v.(type) {
	case nil:
		return "nil"
	case int:
		return fmt.Sprintf("int:%d", x)
	case float64:
		return fmt.Sprintf("float:%x", mathBits(x))
	case string:
		return fmt.Sprintf("str:%q", x)
	case bool:
		return fmt.Sprintf("bool:%v", x)
	case bcl.Block:
		return BlockStr(x)
	default:
		return fmt.Sprintf("?%T:%v", v, v)
	}
}

func BlockStr(b bcl.Block) string {
	var sb strings.Builder
	fmt.Fprintf(&sb, "{%s %q", b.Type, b.Name)
	keys := make([]string, 0, len(b.Fields))
	for k := range b.Fields {
		keys = append(keys, k)
	}
	sort.Strings(keys)
	for _, k := range keys {
		fmt.Fprintf(&sb, " %s=%s", k, ValStr(b.Fields[k]))
	}
	if b.Fields == nil {
		sb.WriteString(" <nil-fields>")
	}
	sb.WriteString("}")
	return sb.String()
}

func BlocksStr(bs []bcl.Block) string {
	if bs == nil {
		return "<nil>"
	}
	var s []string
	for _, b := range bs {
		s = append(s, BlockStr(b))
	}
	return "[" + strings.Join(s, " ") + "]"
}

func BindingStr(b bcl.Binding) string {
	switch x := b.(type) {
	case nil:
		return "<nil>"
	case bcl.StructBinding:
		return "struct:" + BlockStr(x.Value)
	case bcl.SliceBinding:
		return "slice:" + BlocksStr(x.Value)
	default:
		return fmt.Sprintf("?%T", b)
	}
}

// Summary is a one-string canonical form of everything a run shows.
func (r Ran) Summary() string {
	return fmt.Sprintf("out=%q log=%q err=%q blocks=%s binding=%s", r.Out, r.Log, r.ErrText(), BlocksStr(r.Blocks), BindingStr(r.Binding))
}

func mathBits(f float64) uint64 { return math.Float64bits(f) }

// Unmarshal calls bcl.Unmarshal on a private copy of src and overwrites that copy afterwards (see Scribble).
func Unmarshal(src string, target any, opts ...bcl.Option) error {
	in := []byte(src)
	err := bcl.Unmarshal(in, target, opts...)
	Scribble(in)
	return err
}

// Poison writes a foreign key into every Fields map reachable from the results of a call (the caller owns them).
func Poison(blocks []bcl.Block, binding bcl.Binding) {
	var walk func(b bcl.Block)
	walk = func(b bcl.Block) {
		if b.Fields == nil {
			return
		}
		for _, v := range b.Fields {
			if c, ok := v.(bcl.Block); ok {
				walk(c)
			}
		}
		b.Fields["\x00poisoned by the caller"] = 666
	}
	for _, b := range blocks {
		walk(b)
	}
	switch x := binding.(type) {
	case bcl.StructBinding:
		walk(x.Value)
	case bcl.SliceBinding:
		for _, b := range x.Value {
			walk(b)
		}
	}
}
