package impl

import (
	"bytes"
	"fmt"
	"io"
	"os"
	"strings"
	"syscall"

	"github.com/wkhere/bcl"
)

// Answer is one scripted answer of a reader: N bytes and/or an error.
type Answer struct {
	N   int    `json:"n"`
	Err string `json:"err,omitempty"` // "" | "EOF" | other text (a non-EOF error; "wrapeof..." wraps io.EOF, "unexpected-eof" is io.ErrUnexpectedEOF)
}

// ScriptFile is a FileInput whose Read calls are answered by a script over Data.
// After the script is exhausted it delivers the remaining data in one read and then EOF.
type ScriptFile struct {
	Data     []byte
	Script   []Answer
	pos      int
	step     int
	Reads    int
	Closes   int
	sticky   error
	after    int
	rest     *Answer
	ErrVal   error // the error value delivered for non-EOF errors
	CloseErr error // what Close returns (nil by default)
}

type scriptErr struct{ s string }

func (e *scriptErr) Error() string { return e.s }

func NewScriptFile(data string, script []Answer) *ScriptFile {
	return &ScriptFile{Data: []byte(data), Script: script}
}

func (f *ScriptFile) Name() string { return "input" }

func (f *ScriptFile) Close() error {
	f.Closes++
	return f.CloseErr
}

func (f *ScriptFile) Read(p []byte) (int, error) {
	f.Reads++
	if f.sticky != nil {
		f.after++
		if f.after > 4096 {
			panic("the input was read more than 4096 times after it had reported " + f.sticky.Error())
		}
		return 0, f.sticky
	}
	var a Answer
	if f.rest != nil {
		// the remainder of an answer that was larger than the caller's buffer
		a = *f.rest
		f.rest = nil
	} else if f.step < len(f.Script) {
		a = f.Script[f.step]
		f.step++
	} else {
		a = Answer{N: len(f.Data) - f.pos}
		if a.N == 0 {
			a.Err = "EOF"
		}
	}
	n := a.N
	if n < 0 {
		n = 0
	}
	if n > len(f.Data)-f.pos {
		n = len(f.Data) - f.pos
	}
	if n > len(p) {
		// an answer larger than the caller's buffer is delivered in several reads; its error (or EOF) comes with the last piece
		f.rest = &Answer{N: n - len(p), Err: a.Err}
		a.Err = ""
		n = len(p)
	}
	copy(p, f.Data[f.pos:f.pos+n])
	f.pos += n
	var err error
	switch a.Err {
	case "":
	case "EOF":
		err = io.EOF
		f.sticky = err
	default:
		if f.ErrVal == nil {
			switch {
			case strings.HasPrefix(a.Err, "wrapeof"):
				f.ErrVal = fmt.Errorf("%s: %w", a.Err, io.EOF)
			case a.Err == "unexpected-eof":
				f.ErrVal = io.ErrUnexpectedEOF
			case a.Err == "temporary":
				// an error that calls itself temporary and keeps coming (EAGAIN on a descriptor nobody will ever make ready)
				f.ErrVal = &os.PathError{Op: "read", Path: "input", Err: syscall.EAGAIN}
			case a.Err == "deadline":
				f.ErrVal = os.ErrDeadlineExceeded
			default:
				f.ErrVal = &scriptErr{a.Err}
			}
		}
		err = f.ErrVal
		f.sticky = err
	}
	return n, err
}

// Chunks builds a script delivering data in pieces of the given sizes (the rest follows in one read).
func Chunks(sizes ...int) []Answer {
	var s []Answer
	for _, n := range sizes {
		if n > 0 {
			s = append(s, Answer{N: n})
		}
	}
	return s
}

// ParseFile runs bcl.ParseFile on a scripted input.
func ParseFile(f *ScriptFile, opts ...bcl.Option) Parsed {
	var out, log bytes.Buffer
	o := append([]bcl.Option{bcl.OptOutput(&out), bcl.OptLogger(&log)}, opts...)
	p, err := bcl.ParseFile(f, o...)
	return Parsed{p, err, log.String(), out.String()}
}

// InterpretFile runs bcl.InterpretFile on a scripted input.
func InterpretFile(f *ScriptFile, opts ...bcl.Option) Ran {
	var out, log bytes.Buffer
	o := append([]bcl.Option{bcl.OptOutput(&out), bcl.OptLogger(&log)}, opts...)
	bl, bi, err := bcl.InterpretFile(f, o...)
	return Ran{bl, bi, err, out.String(), log.String()}
}
