package gen

import (
	"verif/mc/ref"
)

// Deviations calls f with every single-token and single-byte deviation of src:
// delete / insert / replace / transpose at every position. Token deviations keep the
// original layout between tokens. f returning false stops the enumeration.
func Deviations(src string, tokAlpha, byteAlpha []string, f func(string) bool) bool {
	toks, _ := ref.Lex(src)
	// drop EOF
	if n := len(toks); n > 0 && toks[n-1].Kind == ref.EOF {
		toks = toks[:n-1]
	}
	// token level
	for i := range toks {
		t := toks[i]
		// delete
		if !f(src[:t.Start] + src[t.End:]) {
			return false
		}
		// replace / insert before
		for _, a := range tokAlpha {
			if a != t.Text {
				if !f(src[:t.Start] + a + src[t.End:]) {
					return false
				}
			}
			if !f(src[:t.Start] + a + " " + src[t.Start:]) {
				return false
			}
		}
		// transpose with next
		if i+1 < len(toks) {
			u := toks[i+1]
			if !f(src[:t.Start] + u.Text + src[t.End:u.Start] + t.Text + src[u.End:]) {
				return false
			}
		}
	}
	for _, a := range tokAlpha {
		if !f(src + " " + a) {
			return false
		}
	}
	// byte level (only for sources up to 80 bytes: the space grows quadratically)
	if len(src) <= 80 {
		for i := 0; i <= len(src); i++ {
			if i < len(src) {
				if !f(src[:i] + src[i+1:]) {
					return false
				}
				if i+1 < len(src) {
					if !f(src[:i] + src[i+1:i+2] + src[i:i+1] + src[i+2:]) {
						return false
					}
				}
			}
			for _, b := range byteAlpha {
				if !f(src[:i] + b + src[i:]) {
					return false
				}
				if i < len(src) && src[i:i+1] != b {
					if !f(src[:i] + b + src[i+1:]) {
						return false
					}
				}
			}
		}
	}
	return true
}
