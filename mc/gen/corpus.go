// Package gen holds the bounded-exhaustive enumerators and the shared corpora.
package gen

import (
	"fmt"
	"strings"
)

// Atoms (DESIGN §3).
var AtomsQ = []string{"0", "2", "2.5", `""`, `"a"`, "true", "false", "nil"}
var AtomsT = append(append([]string{}, AtomsQ...),
	"1", "7", "0x10", "010", "9223372036854775807", "0.0", "1e2", "1e21", "2.5e-7", `"b"`, `"a\tb"`, `"10"`, `"c\\"`,
	// strings whose content is spelled like another literal / keyword / identifier of the program
	`"2.5"`, `"1e2"`, `"true"`, `"nil"`, `"vi"`,
	// strings that look like format directives
	`"100%"`, `"%d%s%%"`)

var BinOps = []string{"+", "-", "*", "/", "==", "!=", "<", "<=", ">", ">=", "and", "or"}
var PreOps = []string{"-", "+", "not"}

// Hand-written part of the core corpus: every statement form, every diagnostic
// and runtime-error class, layouts with comments / CR LF / multi-byte characters.
var handK = []string{
	``,
	`print 1`,
	`print 1+2*3`,
	`print (1+2)*3`,
	`print "a"+1`,
	`print "a"+2.5`,
	`print "ab"*3`,
	`print 1/2`,
	`print 1.0/2`,
	`print 7/0.0`,
	`print 1==1.0`,
	`print "a"<"b"`,
	`print 1 and 2`,
	`print 0 or "x"`,
	`print not nil`,
	`print -2.5`,
	`print +3`,
	`print nil==nil`,
	`print 0x1F + 010`,
	`print 1e2`,
	`print "a\tb\n\"q\""`,
	`var a`,
	`var a = 1`,
	`var a = 1; print a`,
	`var a = 1; eval a = a + 1; print a`,
	`var a = 1; var b = a + 1; print a + b`,
	`var x = 1; def b { var x = x + 1; print x }; print x`,
	`def b {}`,
	`def b "n" {}`,
	`def b { x = 1 }`,
	`def b "nm" { x = 1; y = "s"; z = 2.5; t = true; n = nil }`,
	`def b { x = 1; x = x + 1; print x }`,
	`def b { x = 1; def c { y = x } }`,
	`def b { def c "k" { y = 2 }; def c "l" { y = 3 } }`,
	`def b { print TYPE; print NAME }`,
	`def b "q" { print TYPE + "." + NAME }`,
	`def a {x=1} def a {x=2} def b {x=3}`,
	`def a {x=1}; bind a -> struct`,
	`def a {x=1}; bind a:1 -> slice`,
	`def a {x=1} def a {x=2}; bind a:first -> struct`,
	`def a {x=1} def a {x=2}; bind a:last -> slice`,
	`def a {x=1} def a {x=2}; bind a:all -> slice`,
	`def a {x=1}; bind a -> struct; bind a -> slice`,
	`var a=1; def b "nm" { x = a+2.5; print "s"+x } bind b->struct`,
	"var domain = \"acme.com\"\nvar default_port    = 8400\nvar local_port_base = default_port + 1000\n\ndef tunnel \"myservice-prod\" {\n\thost = \"prod\" + \".\" + domain\n\tlocal_port  = local_port_base + 1\n\tremote_port = default_port\n\tenabled = true\n\n\tdef extras {\n\t\tmax_latency = 8.5 # [ms]\n\t}\n}\n\nbind tunnel -> struct\n",
	"# comment only",
	// strings longer in bytes than in characters (on the stack, in fields, as names)
	`var s = "` + rep("界", 30) + `"; print s + "` + rep("я", 40) + `"; def b "` + rep("😀", 20) + `" { f = s + s; g = NAME }`,
	`print "` + rep("é", 33) + `" + "x"; print "` + rep("界", 22) + `" == "` + rep("界", 63) + `"`,
	// escapes that put bytes into a string which are not UTF-8
	`print "\xff"`, `print "caf\xe9" + "\xe2\x82"`, `def b "\xc0\xaf" { f = "\377\376"; g = NAME }` + "\nbind b -> struct", `var sep = "\xa0"; print "head \x80 tail" + sep; print "\x00\x7f\u00e9\U0001F600"`,
	"# c1\nprint 1 # c2\r\nprint 2\r\n",
	"print \"é\" # ü\nprint 2",
	"print 1\u0085print 2",
	"print 1\n\n\nprint 2\n",
	`var a = 1; print (a = 2) + a`,
	`var a; print a`,
	`var a; def b { a = 3 }; print a`,
	`def b { x = y = 2 }`,
	`def b { 1 + 2; "s" }`,
	`def b { eval 1; print 2 }`,
	`print 1 < 2 == true`,
	`print 1 + 2 < 4 and 3 * 2 == 6 or false`,
	`print not 1 == 2`,
	`print - - 1`,
	`print 1 - -1`,
	`print "" or nil or 0 or 0.0 or false or "end"`,
	`print 1 and "a" and 2.5 and true and "last"`,
	// child block read through its key (value semantics unspecified, but must not crash)
	`def b { def c {}; print c == c }`,
	`def b { def c {}; print c == 1; print c != nil }`,
	`def b { def c {}; print c; x = c }`,
	`def b { def c {}; print not c; print c and 1; print c or 1 }`,
	`def b { def c {}; print c + 1 }`,
	`def b { def c {}; print -c }`,
	`def b { def c {}; print c < c }`,
	`def b { def c {}; print "s" + c }`,
	`def b { def c {}; print "s" * c }`,
	`def b { def c {}; c = 2; print c }`,
	`def b { TYPE = 1; NAME = 2; print TYPE; print NAME }`,
	// constants of different kinds with the same spelling (a constant pool keyed by text would confuse them)
	`var v = 1.5; def r "1.5" { x = "1.5" + v }; print v`,
	`def r "1.5" { x = 1.5; y = "1.5" }; print 1.5`,
	`print 2.0; def a "2" { f = "2" }; print 2`,
	`print 1e3; print "1000"; def b "1000" {}`,
	`def a "2.5" { f = 2.5 }; bind a -> struct`,
	`print true or 7.25; def b "7.25" { k = "7.25" }`,
	`print 10; def b "10" { x = 10; y = "10" }`,
	`def a "a" { a = "a"; print a }`,
	`def x "x" { x = "x"; def x "x" { x = x + "x" } }`,
	`var s = "nil"; print s == nil; print "true" == true; def t "true" { f = true }`,
	`print 0.0; print "0"; print 0; def z "0" { f = 0.0 }`,
	`def a { TYPE1 = 1; x = "TYPE" }; def NAME "TYPE" { print NAME + TYPE }`,
	// runtime errors
	`print 1 + "a"`,
	`print 1/0`,
	`print "a" - 1`,
	`print -"a"`,
	`print +nil`,
	`print 1 < "a"`,
	`print true + 1`,
	`print nil * 2`,
	`def b { print x }`,
	`def b { def c {}; def c {} }`,
	`def b { c = 1; def c {} }`,
	`def a {}; print 1/0`,
	`def a {x=1}; def b { print 1 + "s" }`,
	`bind a -> struct`,
	`def a {} def a {}; bind a -> struct`,
	`def a {}; bind b -> slice`,
	"print 1\nprint 2 +\n  \"x\" - 3\n",
	"def a {\n  x = 1\n  y = x / 0\n}\n",
	// compile errors
	`print`,
	`print )`,
	`print 1 +`,
	`print (1`,
	`var`,
	`var 1`,
	`var a = `,
	`var a; var a`,
	`print x`,
	`eval x = 1`,
	`1 + 2`,
	`x = 1`,
	`def`,
	`def b`,
	`def b {`,
	`def b { x = }`,
	`def b "n"`,
	`def b { x = 1 `,
	`print 1 = 2`,
	`var a; print (a) = 2`,
	`var a; eval a + 1 = 2`,
	`bind`,
	`bind a`,
	`bind a ->`,
	`bind a -> oops`,
	`bind a:2 -> struct`,
	`bind a:foo -> struct`,
	`bind a:all -> struct`,
	`bind a: -> struct`,
	`def b { bind a -> struct }`,
	`print 1;;`,
	`print 1 print 2`,
	`print ) ; print (`,
	`var 1; print )`,
	"print 1\nprint )\nprint 3\nvar ;\n",
	// lexical failures
	`print @`,
	`print 1 !`,
	`print "abc`,
	"print \"ab\ncd\"",
	`print 1.`,
	`print 1e`,
	`print 1a`,
	`print 0x1g`,
	`print a"b"`,
	`print "a"b`,
	`print 1"a"`,
	"print 1\nprint \"x\" 'y'\nprint 3",
	"print é",
}

// ExprPrograms: all expression programs of depth <=1 over the given atoms in the print context.
func ExprPrograms(atoms []string) []string {
	var out []string
	for _, a := range atoms {
		out = append(out, "print "+a)
		for _, p := range PreOps {
			out = append(out, "print "+p+" "+a)
		}
		for _, b := range atoms {
			for _, op := range BinOps {
				out = append(out, "print "+a+" "+op+" "+b)
			}
		}
	}
	return out
}

var coreCache []string

// Core returns the core corpus K (deterministic order, no duplicates).
// CoreBase is Core without the mechanically generated name/scope families (ScopeExit, KeywordIdents,
// ChildAsField, CollidingNames), whose members differ from each other in identifiers only.
func CoreBase() []string {
	fam := map[string]bool{}
	for _, f := range [][]string{ScopeExit(), KeywordIdents(), ChildAsField(), CollidingNames(), BlockValueOps()} {
		for _, s := range f {
			fam[s] = true
		}
	}
	var out []string
	for _, s := range Core() {
		if !fam[s] {
			out = append(out, s)
		}
	}
	return out
}

func Core() []string {
	if coreCache != nil {
		return coreCache
	}
	seen := map[string]bool{}
	var out []string
	add := func(s string) {
		if !seen[s] {
			seen[s] = true
			out = append(out, s)
		}
	}
	for _, s := range handK {
		add(s)
	}
	for _, s := range ExprPrograms(AtomsQ) {
		add(s)
	}
	// V_t diagonal: each extra atom against a few partners
	for _, a := range AtomsT[len(AtomsQ):] {
		for _, b := range []string{"2", "2.5", `"a"`, a} {
			for _, op := range BinOps {
				add("print " + a + " " + op + " " + b)
				add("print " + b + " " + op + " " + a)
			}
		}
	}
	// contexts for a few expressions
	for _, e := range []string{"1+2", `"a"+2.5`, "nil or 3", "1/0", `"x"*2`} {
		add("var v = " + e + "; print v; def b { f = v }")
		add("def b { f = " + e + " }")
	}
	for _, s := range ScopeExit() {
		add(s)
	}
	for _, s := range KeywordIdents() {
		add(s)
	}
	for _, s := range ChildAsField() {
		add(s)
	}
	for _, s := range CollidingNames() {
		add(s)
	}
	for _, s := range BlockValueOps() {
		add(s)
	}
	// constants of every kind in one program (for dump/load)
	add(`def k "nm" { i = 42; n = 0 - 42; big = 9223372036854775807; f = 2.5; g = 1e21; h = 5e-324; s = "str"; e = ""; t = true; u = false; z = nil; def in { q = i } }; bind k -> struct`)
	coreCache = out
	return out
}

// Small returns the hand-written part only (cheap first dimension).
func Small() []string { return handK }

// Scaled family member.
type Scaled struct {
	Name  string
	Src   string
	Name2 string // program name to use (default "input")
}

func rep(s string, n int) string { return strings.Repeat(s, n) }

// ScaledFamilies returns programs just below / at / above the implementation limits
// and the size classes of the encoding. big=false leaves out members above 100 kB.
func ScaledFamilies(big bool) []Scaled {
	var out []Scaled
	add := func(name, src string) { out = append(out, Scaled{Name: name, Src: src}) }
	// every short length (fast paths for strings that fit a peeked header, a machine word, a small buffer) ...
	var lens []int
	for L := 0; L <= 18; L++ {
		lens = append(lens, L)
	}
	// ... and the size classes of the encoding
	lens = append(lens, 31, 32, 33, 63, 64, 65, 93, 94, 95, 96, 97, 127, 128, 129, 239, 240, 241, 242, 2286, 2287, 2288, 2289, 4094, 4095, 4096, 4097)
	if big {
		lens = append(lens, 67822, 67823, 67824)
	}
	for _, L := range lens {
		add(fmt.Sprintf("strlen-%d", L), `print "`+rep("s", L)+`"`)
		if L <= 4096 {
			// a diagnostic that quotes a token of that length (identifier, number, string), with more source after it
			add(fmt.Sprintf("longtoken-diag-ident-%d", L), "print 1\nvar x = ) "+rep("i", L)+"\nprint 2")
			add(fmt.Sprintf("longtoken-diag-at-ident-%d", L), "print 1\nprint = "+rep("j", L)+" + 1\nprint 2")
			add(fmt.Sprintf("longtoken-diag-int-%d", L), "print 1\nvar "+rep("7", L)+" = 1\nprint 2")
			add(fmt.Sprintf("longtoken-diag-str-%d", L), "print 1\nvar \""+rep("é", L/2)+"\" = 1\nprint 2")
			add(fmt.Sprintf("longtoken-diag-sel-%d", L), "def b {}\nbind b:"+rep("k", L)+" -> struct")
		}
		add(fmt.Sprintf("identlen-%d", L), `def b { `+rep("i", L)+` = 1 }`)
		add(fmt.Sprintf("blocktype-%d", L), `def `+rep("t", L)+` {}`)
		add(fmt.Sprintf("blockname-%d", L), `def b "`+rep("n", L)+`" { print NAME }`)
	}
	// offsets crossing varint classes: padding then a runtime error and a print
	pads := []int{238, 239, 240, 241, 2285, 2286, 2287, 2288, 4093, 4094, 4095, 4096, 4097}
	if big {
		pads = append(pads, 67821, 67822, 67823, 67824)
	}
	for _, P := range pads {
		add(fmt.Sprintf("padnl-%d", P), rep("\n", P)+`print 1 + "a"`)
		add(fmt.Sprintf("padcomment-%d", P), "#"+rep("c", P-1)+"\nprint 2 print )")
		add(fmt.Sprintf("padspace-%d", P), rep(" ", P)+`def a{}; bind a->struct; bind a->slice`)
	}
	// constant pool sizes 240/241/242 (distinct int constants 2..)
	for _, n := range []int{239, 240, 241, 242} {
		var b strings.Builder
		for i := 0; i < n; i++ {
			fmt.Fprintf(&b, "print %d\n", i+2)
		}
		b.WriteString("def blk { fld = 5 }\n") // indices >= n: 2-byte operands
		add(fmt.Sprintf("constpool-%d", n), b.String())
	}
	// operand indices >= 241 in every instruction kind that takes a constant or a slot:
	// bind type, block type and name, field get/set, local get/set, POPN count
	poolSizes := []int{238, 239, 240, 241, 242, 255, 256, 257, 258, 300, 511, 512, 513, 1000, 2287, 2288, 2289, 2303, 2304, 2305, 2543, 2544, 2545, 2800, 3000, 4400}
	if big {
		// more constants than a 16-bit index can number (and the first 4-byte operand form, from 67824)
		poolSizes = append(poolSizes, 65534, 65540, 67900)
	}
	for _, n := range poolSizes {
		var b strings.Builder
		for i := 0; i < n; i++ {
			fmt.Fprintf(&b, "print %d\n", i+2)
		}
		add(fmt.Sprintf("constpool-bind-%d", n), b.String()+"def blk \"nm\" { fld = 5; print fld }\ndef blk { fld = 6 }\nbind blk:last -> slice\nbind blk:all -> slice\nbind blk:first -> struct\n")
		// runtime errors and warnings raised by instructions whose operand needs 1, 2 or 3 bytes (their position
		// is looked up from the operand's last byte)
		if n <= 300 || (n >= 2287 && n <= 2305) || n == 3000 {
			pre := b.String()
			add(fmt.Sprintf("constpool-rterr-unresolved-%d", n), pre+"print 1\n\ndef blk {\n  fld = 5\n  g =   unknown_name + 1\n}\n")
			add(fmt.Sprintf("constpool-rterr-bindnone-%d", n), pre+"def blk { fld = 5 }\n\n  bind   nosuch -> struct\nprint 2\n")
			add(fmt.Sprintf("constpool-rterr-bindcount-%d", n), pre+"def blk { fld = 5 }\ndef blk { fld = 6 }\n\n\tbind blk -> struct\n")
			add(fmt.Sprintf("constpool-warn-%d", n), pre+"def blk { fld = 5 }\n\nbind blk -> struct\n\n   bind blk:first -> slice\nbind blk:last -> slice\n")
			add(fmt.Sprintf("constpool-rterr-types-%d", n), pre+"def blk {\n fld = \"a new string\" - 1\n}\n")
		}
		if n > 5000 {
			continue
		}
		var v strings.Builder
		for i := 0; i < n; i++ {
			fmt.Fprintf(&v, "var v%d=%d\n", i, i)
		}
		add(fmt.Sprintf("locals-in-block-%d", n), "def blk {\n"+v.String()+"print v0 + v"+fmt.Sprint(n-1)+"\neval v"+fmt.Sprint(n-1)+" = 7\nx = v"+fmt.Sprint(n-1)+"\n}\nprint 1\n")
		add(fmt.Sprintf("locals-top-%d", n), v.String()+"print v0 + v"+fmt.Sprint(n-1)+"\neval v"+fmt.Sprint(n-1)+" = 7\nprint v"+fmt.Sprint(n-1)+"\n")
	}
	// many blocks: N named toplevel blocks, N named children, N fields in one block
	for _, n := range []int{100, 239, 240, 241, 242, 300} {
		var tb, cb, fb strings.Builder
		cb.WriteString("def parent {\n")
		fb.WriteString("def wide \"w\" {\n")
		for i := 0; i < n; i++ {
			fmt.Fprintf(&tb, "def srv \"s%d\" { port = %d }\n", i, 8000+i)
			fmt.Fprintf(&cb, " def kid \"k%d\" { v = %d }\n", i, i)
			fmt.Fprintf(&fb, " f%d = %d\n", i, i+3000)
		}
		cb.WriteString("}\n")
		fb.WriteString(" print f0 + f" + fmt.Sprint(n-1) + "\n}\n")
		add(fmt.Sprintf("manyblocks-top-%d", n), tb.String()+"bind srv:last -> struct\n")
		add(fmt.Sprintf("manyblocks-kids-%d", n), cb.String())
		add(fmt.Sprintf("manyblocks-fields-%d", n), fb.String())
	}
	// operand stack depth via right-nested parentheses: 1+(1+(1+...)) pushes depth n
	for _, n := range []int{1022, 1023, 1024, 1025, 1026} {
		add(fmt.Sprintf("stackdepth-%d", n), "print "+rep("2+(", n-1)+"2"+rep(")", n-1))
	}
	// number of variables
	for _, n := range []int{1022, 1023, 1024, 1025} {
		var b strings.Builder
		for i := 0; i < n; i++ {
			fmt.Fprintf(&b, "var v%d=%d\n", i, i)
		}
		add(fmt.Sprintf("vars-%d", n), b.String())
		add(fmt.Sprintf("vars-%d-use", n), b.String()+"print v0+2\n")
		add(fmt.Sprintf("vars-%d-use2", n), b.String()+"print v0+(2+3)\n")
	}
	// operand values 0..40 (they coincide with opcode numbers: a peephole that inspects raw code bytes would
	// confuse them): N variables, then a declaration / assignment / print that ends in slot N-1 or constant N
	// as the LAST statement of the program and of a block
	for n := 1; n <= 40; n++ {
		var v strings.Builder
		for i := 0; i < n; i++ {
			fmt.Fprintf(&v, "var v%d=%d\n", i, i+100)
		}
		last := fmt.Sprintf("v%d", n-1)
		add(fmt.Sprintf("opbyte-top-var-%d", n), v.String()+"var z = "+last)
		add(fmt.Sprintf("opbyte-top-eval-%d", n), v.String()+"eval "+last+" = "+last)
		add(fmt.Sprintf("opbyte-block-var-%d", n), "def b {\n"+v.String()+"var z = "+last+"\n}\nprint 1")
		add(fmt.Sprintf("opbyte-block-field-%d", n), "def b {\n"+v.String()+"f = "+last+"\n}\nprint 2")
		add(fmt.Sprintf("opbyte-nested-%d", n), v.String()+"def b { var w = "+last+"; def c { var u = w } }")
		// the operand is followed by operator bytes: prefix operators (doubled, over comparisons), comparisons, short-circuit
		add(fmt.Sprintf("opbyte-ops-%d", n), v.String()+"print not not "+last+"\nprint not "+last+"\nprint - - "+last+"\nprint not (1 != "+last+")\nprint 1 <= "+last+"\nprint "+last+" >= 1\nprint not "+last+" == "+last+"\nprint "+last+" and not not "+last+"\ndef b { f = not not "+last+"; g = not not f }")
		// constants: the n-th constant used last
		var cs strings.Builder
		for i := 0; i < n; i++ {
			fmt.Fprintf(&cs, "print %d\n", i+200)
		}
		add(fmt.Sprintf("opbyte-const-%d", n), cs.String()+"var z = 999")
		add(fmt.Sprintf("opbyte-const-ops-%d", n), cs.String()+"print not not 999\nprint not (1 != 998)\ndef b { fld = 5; g = not not fld; h = not not 997 }")
		add(fmt.Sprintf("opbyte-const-block-%d", n), cs.String()+"def b { var z = 999 }")
	}
	// every pushing instruction kind exactly at the operand-stack limit
	for _, n := range []int{1022, 1023, 1024} {
		var b strings.Builder
		for i := 0; i < n; i++ {
			fmt.Fprintf(&b, "var v%d=%d\n", i, i)
		}
		for _, atom := range []string{"2", "0", "1", "true", "false", "nil", "v0", `"s"`, "2.5"} {
			add(fmt.Sprintf("atlimit-%d-%s", n, atom), b.String()+"print "+atom+"\nprint "+atom+" == "+atom+"\n")
		}
		add(fmt.Sprintf("atlimit-%d-field", n), b.String()+"def blk \"nm\" { x = 1; eval x; eval x + x; print TYPE; print NAME + TYPE; def in { y = x; print y + x } }\n")
	}
	for _, n := range []int{1022, 1023, 1024, 1025} {
		add(fmt.Sprintf("stackdepth-field-%d", n), "def blk { x = 1; eval "+rep("2+(", n-1)+"x"+rep(")", n-1)+" }")
		add(fmt.Sprintf("stackdepth-type-%d", n), "def blk { print "+rep("\"a\"+(", n-1)+"TYPE"+rep(")", n-1)+" }")
	}
	// short-circuit jumps emitted at every code offset around the growth points of the code
	// buffer (64, 128, 256 ... bytes): each `print 1` is 2 bytes of code
	growth := map[int]bool{}
	for n := 0; n <= 140; n++ {
		growth[n] = true
	}
	for _, boundary := range []int{512, 1024, 2048, 4096, 8192} {
		for n := boundary/2 - 10; n <= boundary/2+2; n++ {
			growth[n] = true
		}
	}
	for n := 0; n <= 4200; n++ {
		if !growth[n] {
			continue
		}
		pad := rep("print 1\n", n)
		add(fmt.Sprintf("growth-%d", n), pad+"print false and 2 + 3 * 4\nprint 0 or 5 + 6 - 7\nprint true and nil or 2 + 2\ndef b { x = nil or 2 + 3; y = 1 and x + 1 }\n")
	}
	// far more line ends than code bytes (a licence header, blank lines, a trailing comment block)
	for _, n := range []int{10, 100, 1000, 5000} {
		add(fmt.Sprintf("blanklines-%d", n), rep("\n", n)+"print 1\n"+rep("# comment line\n", n)+"def b { x = 1 }\n"+rep("\n", n)+"bind b -> struct\nbind b -> struct\nprint 1/0"+rep("\n", n))
	}
	// block nesting
	for _, n := range []int{15, 16, 17, 18} {
		add(fmt.Sprintf("nest-%d", n), rep("def b { ", n)+"x=1"+rep(" }", n))
		// the deep chain is not the last definition: shallower and equally deep ones follow, and run twice
		chain := func(t string, d int) string { return rep("def "+t+" { ", d) + "x=1" + rep(" }", d) + "\n" }
		add(fmt.Sprintf("nestthen-%d", n), chain("b", n)+"def after { y = 2 }\n"+chain("c", 16)+chain("d", 2)+"bind after -> struct")
	}
	// jump distance: the right operand of and/or is `1+1+...` (ONE ADD = 2 bytes per term, no new
	// constants), started with `1` (1 byte) or `2` (CONST = 2 bytes) to reach even and odd distances:
	// distance = 1 (POP) + first + 2*terms. Targets around the sign bit of the 16-bit operand and its maximum.
	for _, T := range []int{254, 255, 256, 257, 32766, 32767, 32768, 32769, 49152, 65533, 65534, 65535, 65536, 65537} {
		first, terms := "1", (T-2)/2
		if T%2 == 1 {
			first, terms = "2", (T-3)/2
		}
		body := first + rep("+1", terms)
		add(fmt.Sprintf("jump-and-taken-%d", T), "print false and "+body)
		add(fmt.Sprintf("jump-and-fallthrough-%d", T), "print true and "+body)
		add(fmt.Sprintf("jump-or-taken-%d", T), "print 7 or "+body)
		add(fmt.Sprintf("jump-or-fallthrough-%d", T), "def b { x = nil or "+body+" }")
	}
	// a long operand in the MIDDLE of an and/or chain (a jump that is threaded past the following operator's own jumps
	// travels a few bytes further than the operand is long): operand sizes right below the 16-bit limit
	for T := 65524; T <= 65536; T++ {
		first, terms := "1", (T-2)/2
		if T%2 == 1 {
			first, terms = "2", (T-3)/2
		}
		body := first + rep("+1", terms)
		add(fmt.Sprintf("jump-andor-%d", T), "print false and "+body+" or 5\nprint 3 and "+body+" or 6")
		add(fmt.Sprintf("jump-orand-%d", T), "def b { x = 7 or "+body+" and 5; y = nil or "+body+" and 0 }")
	}
	// repeat counts
	add("repeat-neg", `print "ab" * -1`)
	add("repeat-neg-var", `var n = 0-3; print "ab" * n`)
	add("repeat-0", `print "ab" * 0`)
	add("repeat-big", `print "a" * 1048576 == ""`)
	// many newlines (line table size classes)
	for _, n := range []int{240, 241, 2288} {
		add(fmt.Sprintf("lines-%d", n), rep("print 1\n", n))
	}
	return out
}

// ScopeExit: a block declares n variables, reads one of them last, ends; the same NAME is then
// used in every position a name can have afterwards (where it must mean something else, or nothing).
func ScopeExit() []string {
	var out []string
	for n := 1; n <= 3; n++ {
		for last := 0; last < n; last++ {
			inner := ""
			for i := 0; i < n; i++ {
				inner += fmt.Sprintf("var v%d = %d\n", i, 5+i)
			}
			v := fmt.Sprintf("v%d", last)
			inner += "f = " + v + "\n"
			blk := "def b {\n" + inner + "}\n"
			out = append(out,
				blk+"print "+v,                            // undefined afterwards
				blk+"print true or "+v,                    // ... even in a skipped operand
				"def o {\n"+v+" = 3\n"+blk+"g = "+v+"\n}", // the outer block's field again
				"def o {\n"+blk+v+" = 9000\n}",            // a field assignment
				"def o {\n"+v+" = 1\n"+blk+"g = false and "+v+"\n}",
				"var "+v+" = 70\n"+blk+"print "+v+"\n"+v+" = 71\nprint "+v, // the shadowed outer variable
				"def o {\nvar "+v+" = 70\n"+blk+"g = "+v+"\n"+blk+"}",
				blk+"def c {\n"+v+" = 4\nh = "+v+"\n}",
				"def o {\ndef m {\n"+blk+"}\n"+v+" = 1\ng = "+v+"\n}",
			)
		}
	}
	return out
}

// KeywordIdents: identifiers that begin with a keyword (or a contextual word of bind) and go on with an
// underscore, a letter or a digit, in every role an identifier can have.
func KeywordIdents() []string {
	var out []string
	for _, kw := range []string{"var", "def", "eval", "print", "bind", "true", "false", "nil", "not", "and", "or", "first", "struct"} {
		for _, suf := range []string{"_", "_x", "_1", "x", "1", "_" + kw} {
			k := kw + suf
			out = append(out,
				"var "+k+" = 1; print "+k+" + 1; "+k+" = 5; print "+k,
				"def b { "+k+" = 3; g = "+k+" * 2; print "+k+" }",
				"def "+k+" \""+k+"\" { x = 1; t = TYPE }\nbind "+k+" -> struct",
			)
		}
	}
	return out
}

// ChildAsField: a closed child block is an entry of its parent's Fields like any other field: a name that was
// resolved in a farther ancestor must resolve to the nearer child once that child is closed (and only then,
// and only for a nameless child, whose key is its type).
func ChildAsField() []string {
	var out []string
	for _, holder := range []string{"o", "m", "both", "none"} {
		for _, readBefore := range []bool{false, true} {
			for _, child := range []string{"def srv { p = 2 }", "def srv \"x\" { p = 2 }", "def srv { p = 2; def srv { q = 3 } }", "srv = 5"} {
				src := "def o {\n"
				if holder == "o" || holder == "both" {
					src += "srv = 1\n"
				}
				src += "def m {\n"
				if holder == "m" || holder == "both" {
					src += "srv = 10\n"
				}
				src += "def b {\n"
				if readBefore && holder != "none" {
					src += "before = srv\n"
				}
				src += child + "\n"
				src += "after = srv\n"
				src += "def leaf { deep = srv; deeper = deep }\n"
				src += "again = srv\n"
				src += "}\n"
				if holder != "none" {
					src += "later = srv\n"
				}
				src += "}\n}"
				out = append(out, src)
			}
		}
	}
	return out
}

// CollidingNames: pairs of different identifiers that collide under the usual string hash functions (FNV-1a 32,
// FNV-1 32, djb2, Java's 31-hash, CRC-32) or differ only where a sloppy comparison would not look (length, case,
// a common prefix of 8 / 16 / 32 bytes): one is a variable, the other must stay a field / undefined / another variable.
func CollidingNames() []string {
	long := strings.Repeat("n", 32)
	pairs := [][2]string{
		{"costarring", "liquid"}, {"declinate", "macallums"}, {"altarage", "zinke"}, {"altarages", "zinkes"}, // FNV-1a 32
		{"hetairas", "mentioner"}, {"heliotropes", "neurospora"}, {"depravement", "serafins"}, {"stylist", "subgenera"}, {"joyful", "synaphea"}, {"redescribed", "urites"}, {"dram", "vivency"}, // djb2
		{"Aa", "BB"}, {"AaAa", "BBBB"}, {"AaBB", "BBAa"}, // 31-hash
		{"plumless", "buckeroo"}, // CRC-32
		{"abcdefgh1", "abcdefgh2"}, {"abcdefghijklmnop1", "abcdefghijklmnop2"}, {long + "a", long + "b"}, {"name", "Name"}, {"ab", "abc"}, {"x_1", "x1"},
	}
	var out []string
	for _, p := range pairs {
		a, b := p[0], p[1]
		out = append(out,
			"var "+a+" = 1\nprint "+b, // b is undefined
			"var "+a+" = 1\ndef blk { "+b+" = 2; print "+a+"; print "+b+"; g = "+a+" + "+b+" }\nprint "+a, // b is a field
			"var "+a+" = 1\nvar "+b+" = 2\n"+a+" = 10\nprint "+a+" + "+b+"\ndef blk { "+a+" = "+b+"; x = "+a+" }\nprint "+a,
			"def blk { "+a+" = 1; def in { "+b+" = 2; r = "+a+"; s = "+b+" }; t = "+a+" }",
			"def "+a+" { x = 1 }\ndef "+b+" { x = 2 }\nbind "+a+" -> struct",
		)
	}
	return out
}

// BlockValueOps: a closed child block read through its key is a value; every operator and statement is applied
// to such values (what they give is left open, but it must be a value or a runtime error, never a crash), for
// children that are empty, hold scalars, and hold children of their own down to three levels.
func BlockValueOps() []string {
	kids := []string{"def k {}", "def k { p = 1 }", "def k { def m {} }", "def k { p = 1; def m { q = 2; def n { r = nil } } }"}
	uses := []string{"print k == k", "x = k != k", "x = k == 1", "x = nil == k", "x = not k", "x = k and 1", "x = k or 2", "x = - k", "x = + k", "x = k + 1", "x = \"s\" + k",
		"x = k * 2", "x = k < k", "x = k >= 1", "x = k / k", "print k", "var v = k; y = v == k; z = v", "x = k; y = x == k", "eval k", "x = (k == k) == (k != k)"}
	var out []string
	for _, kid := range kids {
		for _, u := range uses {
			out = append(out, "def a {\n"+kid+"\n"+u+"\n}\nprint 1")
			out = append(out, "def a {\ndef b {\n"+kid+"\n}\ndef c {\n"+kid+"\n"+strings.ReplaceAll(u, "k == k", "k == k")+"\n}\n}")
		}
	}
	return out
}

// DenseFamilies: the sizes IN BETWEEN the boundaries. ScaledFamilies puts members just below / at / above every
// limit and size class that is known; a slip whose own boundary lies somewhere else (a fast path for "short" strings, a
// table that grows at 100 entries, a counter that wraps at 1000, a buffer of 1500 bytes) shows only at a size nobody
// listed. Here every length / count from 0 up to a bound is a member: string constants, leading line ends, leading
// blanks, constants in the pool, local variables, code bytes, and every integer constant value 0..70000.
func DenseFamilies(thorough bool) []Scaled {
	var out []Scaled
	add := func(name, src string) { out = append(out, Scaled{Name: name, Src: src}) }
	N, M := 1300, 330
	if thorough {
		N, M = 6000, 1100
	}
	for L := 0; L <= N; L++ {
		add(fmt.Sprintf("dense-strlen-%d", L), `var s = "`+rep("s", L)+`"`+"\nprint s == s\ndef b { f = s + 1 }")
		add(fmt.Sprintf("dense-padnl-%d", L), rep("\n", L)+"def a{}; bind a->struct\nbind a->slice\nprint 1 + \"a\" - 2")
		add(fmt.Sprintf("dense-padsp-%d", L), rep(" ", L)+"def a{}; bind a->struct; bind a->slice; print 1/0")
	}
	var cs, vs strings.Builder
	for n := 1; n <= M; n++ {
		fmt.Fprintf(&cs, "print %d\n", n+1)
		fmt.Fprintf(&vs, "var v%d=%d\n", n-1, n+1)
		add(fmt.Sprintf("dense-consts-%d", n), cs.String()+"def blk \"nm\" { fld = 5; print fld + TYPE }\nbind blk -> struct\nbind blk:last -> slice\nprint 1 + nil\n")
		add(fmt.Sprintf("dense-locals-%d", n), vs.String()+fmt.Sprintf("def blk { var w = v%d; x = w + v0; eval w = 7; y = w }\nprint v%d\nbind blk -> struct\nprint v0 - \"s\"\n", n-1, n-1))
		add(fmt.Sprintf("dense-code-%d", n), rep("print 1\n", n)+"print false and 2 + 3 * 4\ndef b { x = nil or 2 + 3 }\nprint 0 or 1/0\n")
	}
	// every integer constant 0..70000 (all one- and two-byte and the first three-byte encodings), 2500 per program
	for k := 0; k*2500 <= 70000; k++ {
		var b strings.Builder
		for v := k * 2500; v < (k+1)*2500; v++ {
			fmt.Fprintf(&b, "print %d\n", v)
		}
		add(fmt.Sprintf("dense-ints-%d", k), b.String())
	}
	// many distinct identifiers, some used again (tables keyed by identifier: capacity, eviction, rehashing)
	for _, n := range []int{1000, 2500, 6000, 20000} {
		if n > 6000 && !thorough {
			continue
		}
		var b strings.Builder
		b.WriteString("def wide {\n")
		for i := 0; i < n; i++ {
			fmt.Fprintf(&b, " f%d = %d\n", i, i%7)
		}
		for i := 0; i < n; i += n / 50 {
			fmt.Fprintf(&b, " g%d = f%d + f%d\n", i, i, (i*7)%n)
		}
		b.WriteString("}\n")
		add(fmt.Sprintf("dense-idents-%d", n), b.String())
	}
	return out
}
