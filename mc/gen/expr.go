package gen

// Expression enumeration (C01): all expression trees up to a depth over an atom and
// operator alphabet, rendered with minimal parentheses.

// Expr is a rendered expression with the precedence level of its root.
type Expr struct {
	Text  string
	Level int
	Depth int
}

// Levels as documented: or 1 < and 2 < not 3 < equality 4 < ordering 5 < additive 6 < multiplicative 7 < unary 8 < atom 9.
func BinLevel(op string) int {
	switch op {
	case "or":
		return 1
	case "and":
		return 2
	case "==", "!=":
		return 4
	case "<", "<=", ">", ">=":
		return 5
	case "+", "-":
		return 6
	case "*", "/":
		return 7
	}
	panic("BinLevel " + op)
}

func wrap(e Expr, min int) string {
	if e.Level < min {
		return "(" + e.Text + ")"
	}
	return e.Text
}

// Bin renders l op r with minimal parentheses.
func Bin(op string, l, r Expr) Expr {
	lv := BinLevel(op)
	rmin := lv + 1
	if lv <= 2 {
		rmin = lv // and/or: grouping of a chain is unobservable
	}
	d := l.Depth
	if r.Depth > d {
		d = r.Depth
	}
	return Expr{wrap(l, lv) + " " + op + " " + wrap(r, rmin), lv, d + 1}
}

// Pre renders a prefix operator application.
func Pre(op string, x Expr) Expr {
	if op == "not" {
		return Expr{"not " + wrap(x, 3), 3, x.Depth + 1}
	}
	// "- -x" must not become "--x"? ('--' is two tokens anyway); keep a space for readability
	return Expr{op + wrap(x, 8), 8, x.Depth + 1}
}

func Atom(s string) Expr { return Expr{s, 9, 0} }

// Depth1 returns all expressions of depth <= 1 over the atoms.
func Depth1(atoms []string) []Expr {
	var out []Expr
	var as []Expr
	for _, a := range atoms {
		as = append(as, Atom(a))
	}
	out = append(out, as...)
	for _, a := range as {
		for _, p := range PreOps {
			out = append(out, Pre(p, a))
		}
	}
	for _, a := range as {
		for _, b := range as {
			for _, op := range BinOps {
				out = append(out, Bin(op, a, b))
			}
		}
	}
	return out
}

// Depth2 calls f with every expression of depth exactly 2 built from the depth<=1 set
// (at least one child has depth 1). leftFilter lets a worker skip left operands it does not own.
func Depth2(d1 []Expr, leftOwned func(string) bool, f func(Expr, string) bool) bool {
	for _, l := range d1 {
		if !leftOwned(l.Text) {
			continue
		}
		if l.Depth == 1 {
			for _, p := range PreOps {
				if !f(Pre(p, l), l.Text) {
					return false
				}
			}
		}
		for _, r := range d1 {
			if l.Depth == 0 && r.Depth == 0 {
				continue
			}
			for _, op := range BinOps {
				if !f(Bin(op, l, r), l.Text) {
					return false
				}
			}
		}
	}
	return true
}

// FullParens renders with parentheses around every sub-expression, n pairs each.
// It re-renders from a tree description, so it is only offered for depth<=1 building blocks:
func Paren(e Expr, n int) Expr {
	t := e.Text
	for i := 0; i < n; i++ {
		t = "(" + t + ")"
	}
	return Expr{t, 9, e.Depth}
}
