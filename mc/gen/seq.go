package gen

import "strings"

// Results of the Sequences callback.
const (
	SeqStop     = 0 // stop the enumeration
	SeqExtend   = 1 // go on and extend this sequence
	SeqNoExtend = 2 // go on, but do not extend this sequence (absorbing outcome)
)

// Sym is one statement symbol of a sequence alphabet.
type Sym struct {
	Top   string // rendering at toplevel ("" = not allowed there)
	In    string // rendering inside a block ("" = not allowed there)
	Delta int    // +1 opens a block, -1 closes one
}

// Sequences enumerates all statement sequences of length 1..maxLen over the alphabet,
// with block nesting <= maxNest; every sequence is completed by closing the open
// blocks. f gets the rendered program and the rendering of its first two statements
// (the shard key). own tells whether the caller owns a shard key (to skip sub-trees).
func Sequences(alpha []Sym, maxLen, maxNest int, sep string, own func(string) bool, f func(prog, shard string) int) bool {
	parts := make([]string, 0, maxLen)
	var rec func(depth int) bool
	rec = func(depth int) bool {
		if len(parts) > 0 {
			shard := parts[0]
			if len(parts) > 1 {
				shard += sep + parts[1]
			}
			if len(parts) >= 2 || own(shard) {
				switch f(joinStmts(parts, sep)+strings.Repeat(" }", depth), shardOf(parts, sep)) {
				case SeqStop:
					return false
				case SeqNoExtend:
					return true
				}
			}
		}
		if len(parts) == maxLen {
			return true
		}
		for _, s := range alpha {
			txt := s.Top
			if depth > 0 {
				txt = s.In
			}
			if txt == "" {
				continue
			}
			if s.Delta > 0 && depth >= maxNest {
				continue
			}
			if s.Delta < 0 && depth == 0 {
				continue
			}
			parts = append(parts, txt)
			if len(parts) == 2 && !own(shardOf(parts, sep)) {
				parts = parts[:len(parts)-1]
				continue
			}
			ok := rec(depth + s.Delta)
			parts = parts[:len(parts)-1]
			if !ok {
				return false
			}
		}
		return true
	}
	return rec(0)
}

func shardOf(parts []string, sep string) string {
	if len(parts) == 1 {
		return parts[0]
	}
	return parts[0] + sep + parts[1]
}

// joinStmts joins statements with sep, except after a block opener (a separator
// there would be an empty statement).
func joinStmts(parts []string, sep string) string {
	var sb strings.Builder
	for i, p := range parts {
		if i > 0 {
			if strings.HasSuffix(parts[i-1], "{") {
				sb.WriteString(" ")
			} else {
				sb.WriteString(sep)
			}
		}
		sb.WriteString(p)
	}
	return sb.String()
}
