package gen

import (
	"strings"

	"verif/mc/ref"
)

// Separators between tokens (C20/C08). "" = adjacency, used only where the reference
// lexer says the token sequence does not change.
var SepsBasic = []string{"", "\t", "\v", "\f", "\r", "\n", "\r\n", "\u0085", " ", "  ", " \n ", "\n\n", "\r\n\t"}

// Comments with tricky bodies, each ended by LF or CR.
var SepsComments = []string{"#c\n", "#\n", "#\r", " # \"q\n", "#\\\n", "# print 1\n", "#é ü\n", "## ;\n", "#)\r", "# \u0085 x )\n", "#  \r\n", "#}\n#{\n",
	// characters whose code point ends in the byte of LF / CR / space / NBSP (U+010A, U+010D, U+4E0A, U+0120, U+01A0)
	"#\u010d x )\n", "# \u010a print 1\n", "#\u4e0a ;\r", "#\u0120\u01a0 (\n",
	// comments that end in one, two, three backslashes (a path, a line continuation of another language) before every kind of line end
	"#\\\r", "#\\\r\n", "# C:\\docs\\\r", "#\\\\\r", "#\\\\\\\r", "#\\\\\\\n", "#\"\\\r", "#\\\"\r", "#\\\"\n"}

// SplitTokens splits a source into token texts plus a verbatim tail (the text after
// the last complete token: trailing layout or the text of a lexical failure).
func SplitTokens(src string) (toks []string, tail string) {
	ts, _ := ref.Lex(src)
	end := 0
	for _, t := range ts {
		if t.Kind == ref.EOF {
			break
		}
		toks = append(toks, t.Text)
		end = t.End
	}
	tail = strings.TrimLeft(src[end:], " \t\r\n")
	return
}

// Render joins tokens with the given separators: seps[i] precedes token i, seps[len(toks)] follows the last.
func Render(toks []string, seps []string, tail string) string {
	var sb strings.Builder
	for i, t := range toks {
		sb.WriteString(seps[i])
		sb.WriteString(t)
	}
	sb.WriteString(seps[len(toks)])
	sb.WriteString(tail)
	return sb.String()
}

// Canonical separators: nothing before the first token, one space between tokens, nothing after.
func CanonSeps(n int) []string {
	s := make([]string, n+1)
	for i := 1; i < n; i++ {
		s[i] = " "
	}
	return s
}

// okSep reports whether separator sep may replace the canonical one at gap g.
func okSep(toks []string, tail string, g int, sep string) bool {
	if sep != "" {
		return true
	}
	if g == 0 {
		return true
	}
	if g == len(toks) {
		// adjacency with the verbatim tail could change the last token
		return tail == ""
	}
	return ref.Adjacent(toks[g-1], toks[g])
}

// Layouts calls f with every re-rendering in which at most k gaps deviate from the
// canonical layout, each deviating gap taking every separator of alpha.
func Layouts(toks []string, tail string, alpha []string, k int, f func(src string) bool) bool {
	n := len(toks)
	seps := CanonSeps(n)
	if tail != "" && n > 0 {
		seps[n] = " "
	}
	var rec func(from, left int) bool
	rec = func(from, left int) bool {
		if !f(Render(toks, seps, tail)) {
			return false
		}
		if left == 0 {
			return true
		}
		for g := from; g <= n; g++ {
			old := seps[g]
			for _, s := range alpha {
				if s == old || !okSep(toks, tail, g, s) {
					continue
				}
				// a comment before the verbatim tail would swallow it
				if g == n && tail != "" && strings.Contains(s, "#") && !strings.HasSuffix(s, "\n") && !strings.HasSuffix(s, "\r") {
					continue
				}
				seps[g] = s
				if !rec(g+1, left-1) {
					seps[g] = old
					return false
				}
			}
			seps[g] = old
		}
		return true
	}
	return rec(0, k)
}

// AllSame renders the tokens with the same separator in every inner gap.
func AllSame(toks []string, tail string, sep string) (string, bool) {
	n := len(toks)
	seps := make([]string, n+1)
	for g := 1; g < n; g++ {
		if !okSep(toks, tail, g, sep) {
			if sep == "" {
				seps[g] = " "
				continue
			}
			return "", false
		}
		seps[g] = sep
	}
	if tail != "" {
		seps[n] = " "
	}
	return Render(toks, seps, tail), true
}
