package ref

import "fmt"

// ---------------------------------------------------------------- AST

type NodeKind int

const (
	NLit   NodeKind = iota
	NVar            // resolved variable read
	NField          // field read (identifier that is no variable, inside a block)
	NUnary          // - +
	NNot
	NBinary // arithmetic / comparison
	NAnd
	NOr
	NAssignVar
	NAssignField
	NParen
)

type Node struct {
	Kind  NodeKind
	Val   any    // NLit
	Op    string // NUnary, NBinary
	Name  string // identifier
	VarID int    // NVar, NAssignVar: unique id of the declaration
	L, R  *Node  // operands; unary/paren/assign use R
	Start int
	End   int // end offset of the node's last token
}

type StmtKind int

const (
	SVar StmtKind = iota
	SPrint
	SEval
	SExpr // bare expression inside a block
	SDef
	SBind
)

type Stmt struct {
	Kind   StmtKind
	Name   string // SVar: variable; SDef: block type; SBind: block type
	VarID  int
	X      *Node // initializer / expression (nil for `var x`)
	BName  string
	Body   []*Stmt
	Sel    string // one | first | last | all
	Target string // struct | slice
	End    int    // end offset of the statement's last token (SDef: the '}'; SBind: the target)
	LBrace int    // SDef: end offset of the '{'  (where a nesting-limit error is reported)
}

// Diag is the first diagnostic the reference predicts for a rejected source.
type Diag struct {
	Off   int    // end offset of the offending token (or lexical failure offset)
	Class string // syntax | undefined | redeclared | assign-target | selector | target | all-needs-slice | literal | lexical | limit
	Msg   string
	AtEnd bool
	// Alt: a second admissible location for the first diagnostic (a lexical failure
	// in the token right after a semantic error is reported first by a one-token-lookahead parser).
	Alt *Diag
}

func (d *Diag) String() string {
	if d == nil {
		return "<accepted>"
	}
	return fmt.Sprintf("%s@%d(%s)", d.Class, d.Off, d.Msg)
}

type Program struct {
	Stmts []*Stmt
	NVars int
	Toks  []Tok
}

// Limits of the language implementation (documented: errors, never crashes).
const (
	MaxLocals = 1024
	MaxNest   = 16
)

type scope struct {
	names []string
	ids   []int
	init  []bool
}

type parser struct {
	toks   []Tok
	fail   *LexFail
	i      int
	scopes []*scope
	nvars  int
	live   int // live variables (for the limit)
	depth  int
	// Unchecked: features seen whose behaviour the documentation leaves open
	Notes map[string]bool
}

type bail struct{ d *Diag }

// Parse parses a source. Exactly one of prog / diag is non-nil.
func Parse(src string) (prog *Program, diag *Diag) {
	toks, fail := Lex(src)
	p := &parser{toks: toks, fail: fail, Notes: map[string]bool{}}
	p.scopes = []*scope{{}}
	defer func() {
		if r := recover(); r != nil {
			b, ok := r.(bail)
			if !ok {
				panic(r)
			}
			prog, diag = nil, b.d
		}
	}()
	var stmts []*Stmt
	for !p.atEOF() {
		stmts = append(stmts, p.top())
		p.optSemi()
	}
	return &Program{Stmts: stmts, NVars: p.nvars, Toks: toks}, nil
}

func (p *parser) lexDiag() *Diag {
	return &Diag{Off: p.fail.Off, Class: "lexical", Msg: p.fail.Class}
}

// cur returns the current token; reaching the point of a lexical failure ends the parse.
func (p *parser) cur() Tok {
	if p.i >= len(p.toks) {
		// only possible with a lexical failure (otherwise EOF is last and never passed)
		panic(bail{p.lexDiag()})
	}
	return p.toks[p.i]
}

func (p *parser) atEOF() bool { return p.cur().Kind == EOF }

func (p *parser) next() Tok {
	t := p.cur()
	p.i++
	return t
}

// semantic error at token t; if the token after t is where lexing failed, the
// lexical diagnostic is an admissible first diagnostic too.
func (p *parser) sem(t Tok, class, msg string) {
	d := &Diag{Off: t.End, Class: class, Msg: msg}
	if p.fail != nil && p.i >= len(p.toks) {
		d.Alt = p.lexDiag()
	}
	panic(bail{d})
}

func (p *parser) syntax(msg string) {
	t := p.cur()
	panic(bail{&Diag{Off: t.End, Class: "syntax", Msg: msg, AtEnd: t.Kind == EOF}})
}

func (p *parser) optSemi() {
	if p.cur().Is(";") {
		p.i++
	}
}

func (p *parser) expectOp(op, msg string) Tok {
	if !p.cur().Is(op) {
		p.syntax(msg)
	}
	return p.next()
}

func (p *parser) expectIdent(msg string) Tok {
	if p.cur().Kind != IDENT {
		p.syntax(msg)
	}
	return p.next()
}

// ---------------------------------------------------------------- scopes

func (p *parser) declare(t Tok) int {
	sc := p.scopes[len(p.scopes)-1]
	for _, n := range sc.names {
		if n == t.Text {
			p.sem(t, "redeclared", "variable with this name already present in this scope")
		}
	}
	if p.live >= MaxLocals {
		p.sem(t, "limit", "too many local variables")
	}
	id := p.nvars
	p.nvars++
	p.live++
	sc.names = append(sc.names, t.Text)
	sc.ids = append(sc.ids, id)
	sc.init = append(sc.init, false)
	return id
}

func (p *parser) markInit() {
	sc := p.scopes[len(p.scopes)-1]
	sc.init[len(sc.init)-1] = true
}

// resolve finds the innermost initialised variable with that name.
func (p *parser) resolve(name string) (id int, ok bool) {
	for s := len(p.scopes) - 1; s >= 0; s-- {
		sc := p.scopes[s]
		for k := len(sc.names) - 1; k >= 0; k-- {
			if sc.names[k] == name && sc.init[k] {
				return sc.ids[k], true
			}
		}
	}
	return 0, false
}

// ---------------------------------------------------------------- statements

func (p *parser) top() *Stmt {
	t := p.cur()
	switch {
	case t.Is("var"):
		p.i++
		name := p.expectIdent("expected variable name")
		id := p.declare(name)
		st := &Stmt{Kind: SVar, Name: name.Text, VarID: id, End: name.End}
		if p.cur().Is("=") {
			p.i++
			st.X = p.expr()
			st.End = st.X.End
		}
		p.markInit()
		return st
	case t.Is("print"):
		p.i++
		x := p.expr()
		return &Stmt{Kind: SPrint, X: x, End: x.End}
	case t.Is("eval"):
		p.i++
		x := p.expr()
		return &Stmt{Kind: SEval, X: x, End: x.End}
	case t.Is("def"):
		p.i++
		return p.block()
	case t.Is("bind"):
		p.i++
		return p.bind()
	}
	if p.depth > 0 {
		x := p.expr()
		return &Stmt{Kind: SExpr, X: x, End: x.End}
	}
	p.syntax("expected statement")
	return nil
}

func (p *parser) block() *Stmt {
	typ := p.expectIdent("expected block type")
	st := &Stmt{Kind: SDef, Name: typ.Text}
	if p.cur().Kind == STR {
		nt := p.next()
		v, ok := LitValue(nt)
		if !ok {
			p.sem(nt, "literal", "invalid string literal")
		}
		st.BName = v.(string)
	}
	lb := p.expectOp("{", "expected '{'")
	st.LBrace = lb.End
	p.depth++
	p.scopes = append(p.scopes, &scope{})
	for !p.cur().Is("}") && !p.atEOF() {
		st.Body = append(st.Body, p.top())
		p.optSemi()
	}
	rc := p.expectOp("}", "expected '}'")
	st.End = rc.End
	sc := p.scopes[len(p.scopes)-1]
	p.live -= len(sc.names)
	p.scopes = p.scopes[:len(p.scopes)-1]
	p.depth--
	return st
}

func (p *parser) bind() *Stmt {
	typ := p.expectIdent("expected block type")
	st := &Stmt{Kind: SBind, Name: typ.Text, Sel: "one"}
	const selmsg = "expected 1,first,last,all as a block selector"
	if p.cur().Is(":") {
		p.i++
		t := p.cur()
		switch {
		case t.Kind == INT:
			p.i++
			if t.Text != "1" {
				p.sem(t, "selector", selmsg)
			}
		case t.Kind == IDENT:
			p.i++
			switch t.Text {
			case "first", "last", "all":
				st.Sel = t.Text
			default:
				p.sem(t, "selector", selmsg)
			}
		default:
			p.syntax(selmsg)
		}
	}
	p.expectOp("->", "expected '->'")
	const tmsg = "expected bind target ('struct' or 'slice')"
	tt := p.expectIdent(tmsg)
	switch tt.Text {
	case "struct", "slice":
		st.Target = tt.Text
	default:
		p.sem(tt, "target", tmsg)
	}
	if st.Sel == "all" && st.Target != "slice" {
		p.sem(tt, "all-needs-slice", "bind of multiple blocks requires slice target")
	}
	st.End = tt.End
	return st
}

// ---------------------------------------------------------------- expressions

// binary operator levels (documented precedence)
const (
	lvOr = iota + 1
	lvAnd
	lvNot
	lvEq
	lvCmp
	lvAdd
	lvMul
	lvUnary
)

func opLevel(t Tok) int {
	if t.Kind == KW {
		switch t.Text {
		case "or":
			return lvOr
		case "and":
			return lvAnd
		}
		return 0
	}
	if t.Kind != OP {
		return 0
	}
	switch t.Text {
	case "==", "!=":
		return lvEq
	case "<", "<=", ">", ">=":
		return lvCmp
	case "+", "-":
		return lvAdd
	case "*", "/":
		return lvMul
	}
	return 0
}

// expr = ident '=' expr | binary(lowest) ; a '=' after any other complete expression
// at this level is "invalid assignment target".
func (p *parser) expr() *Node {
	t := p.cur()
	var n *Node
	if t.Kind == IDENT && p.i+1 < len(p.toks) && p.toks[p.i+1].Is("=") {
		// assignment; the target is resolved before the right side is parsed
		id, isVar := p.resolve(t.Text)
		if !isVar && p.depth == 0 {
			p.i++
			p.sem(t, "undefined", "undefined variable")
		}
		p.i += 2
		rhs := p.expr()
		if isVar {
			n = &Node{Kind: NAssignVar, Name: t.Text, VarID: id, R: rhs, Start: t.Start, End: rhs.End}
		} else {
			n = &Node{Kind: NAssignField, Name: t.Text, R: rhs, Start: t.Start, End: rhs.End}
		}
	} else {
		n = p.binary(lvOr)
	}
	if p.cur().Is("=") {
		eq := p.next()
		p.sem(eq, "assign-target", "invalid assignment target")
	}
	return n
}

// binary(min) = operand { op(level >= min) binary(level+1) } ; and/or take their right
// operand at the same level (chains group to the right, which is unobservable).
func (p *parser) binary(min int) *Node {
	left := p.operand()
	for {
		t := p.cur()
		lv := opLevel(t)
		if lv == 0 || lv < min {
			return left
		}
		p.i++
		switch lv {
		case lvOr:
			r := p.binary(lvOr)
			left = &Node{Kind: NOr, L: left, R: r, Start: left.Start, End: r.End}
		case lvAnd:
			r := p.binary(lvAnd)
			left = &Node{Kind: NAnd, L: left, R: r, Start: left.Start, End: r.End}
		default:
			r := p.binary(lv + 1)
			left = &Node{Kind: NBinary, Op: t.Text, L: left, R: r, Start: left.Start, End: r.End}
		}
	}
}

func (p *parser) operand() *Node {
	t := p.cur()
	switch {
	case t.Kind == INT || t.Kind == FLOAT || t.Kind == STR:
		p.i++
		v, ok := LitValue(t)
		if !ok {
			p.sem(t, "literal", "invalid literal")
		}
		return &Node{Kind: NLit, Val: v, Start: t.Start, End: t.End}
	case t.Is("true"), t.Is("false"):
		p.i++
		return &Node{Kind: NLit, Val: t.Text == "true", Start: t.Start, End: t.End}
	case t.Is("nil"):
		p.i++
		return &Node{Kind: NLit, Val: nil, Start: t.Start, End: t.End}
	case t.Kind == IDENT:
		p.i++
		if id, ok := p.resolve(t.Text); ok {
			return &Node{Kind: NVar, Name: t.Text, VarID: id, Start: t.Start, End: t.End}
		}
		if p.depth == 0 {
			p.sem(t, "undefined", "undefined variable")
		}
		return &Node{Kind: NField, Name: t.Text, Start: t.Start, End: t.End}
	case t.Is("("):
		p.i++
		x := p.expr()
		rp := p.expectOp(")", "expected ')' after expression")
		return &Node{Kind: NParen, R: x, Start: t.Start, End: rp.End}
	case t.Is("-"), t.Is("+"):
		p.i++
		x := p.binary(lvUnary)
		return &Node{Kind: NUnary, Op: t.Text, R: x, Start: t.Start, End: x.End}
	case t.Is("not"):
		p.i++
		x := p.binary(lvNot)
		return &Node{Kind: NNot, R: x, Start: t.Start, End: x.End}
	}
	// "expected expression" is reported at the token that cannot start an operand
	p.i++
	panic(bail{&Diag{Off: t.End, Class: "syntax", Msg: "expected expression", AtEnd: t.Kind == EOF}})
}
