// Package ref is the reference model of the BCL language (DESIGN.md appendix A):
// a maximal-munch tokenizer over the whole source, a precedence-climbing parser
// with static scope analysis, and a tree-walking evaluator over scope maps.
// It is written from the documentation and the property statements, with
// mechanisms deliberately different from the implementation's.
package ref

import (
	"strconv"
	"strings"
	"unicode/utf8"
)

type Kind int

const (
	EOF Kind = iota
	INT
	FLOAT
	STR
	IDENT
	KW // keyword; Text tells which
	OP // operator / punctuation; Text tells which
)

func (k Kind) String() string {
	return [...]string{"EOF", "INT", "FLOAT", "STR", "IDENT", "KW", "OP"}[k]
}

type Tok struct {
	Kind       Kind
	Text       string
	Start, End int // byte offsets; End is the position a diagnostic reports
}

func (t Tok) Is(text string) bool { return (t.Kind == KW || t.Kind == OP) && t.Text == text }

var Keywords = map[string]bool{"var": true, "def": true, "eval": true, "print": true, "bind": true,
	"true": true, "false": true, "nil": true, "not": true, "and": true, "or": true}

// LexFail is the first lexical failure: the token stream ends there.
type LexFail struct {
	Off   int    // offset reported (just after the offending text)
	Class string // unknown-char | bang | unterminated | dot-digits | exp-digits | sticky
}

func isLetter(c byte) bool { return c >= 'a' && c <= 'z' || c >= 'A' && c <= 'Z' }
func isDigit(c byte) bool  { return c >= '0' && c <= '9' }
func isHex(c byte) bool    { return isDigit(c) || c >= 'a' && c <= 'f' || c >= 'A' && c <= 'F' }

// wsLen returns the length of the whitespace character at s[i:], or 0.
func wsLen(s string, i int) int {
	switch s[i] {
	case ' ', '\t', '\v', '\f', '\n', '\r':
		return 1
	case 0xC2:
		if i+1 < len(s) && (s[i+1] == 0x85 || s[i+1] == 0xA0) {
			return 2
		}
	}
	return 0
}

var twoCharOps = []string{"==", "!=", "<=", ">=", "->"}

const oneCharOps = "={}()<>+-*/:;"

// Lex tokenizes the whole source. The returned tokens end with an EOF token unless
// fail != nil, in which case they are the tokens before the failure.
func Lex(s string) (toks []Tok, fail *LexFail) {
	i := 0
	n := len(s)
	// sticky: offending char after a token; position reported is after that char (whole rune)
	after := func(j int) int {
		_, w := utf8.DecodeRuneInString(s[j:])
		return j + w
	}
	for {
		// skip whitespace and comments
		for i < n {
			if w := wsLen(s, i); w > 0 {
				i += w
				continue
			}
			if s[i] == '#' {
				for i < n && s[i] != '\n' && s[i] != '\r' {
					i++
				}
				continue
			}
			break
		}
		if i >= n {
			toks = append(toks, Tok{EOF, "", n, n})
			return toks, nil
		}
		st := i
		c := s[i]
		switch {
		case isLetter(c) || c == '_':
			for i < n && (isLetter(s[i]) || isDigit(s[i]) || s[i] == '_') {
				i++
			}
			if i < n && s[i] == '"' {
				return toks, &LexFail{i + 1, "sticky"}
			}
			w := s[st:i]
			if Keywords[w] {
				toks = append(toks, Tok{KW, w, st, i})
			} else {
				toks = append(toks, Tok{IDENT, w, st, i})
			}
		case isDigit(c):
			kind := INT
			if c == '0' && i+1 < n && (s[i+1] == 'x' || s[i+1] == 'X') {
				i += 2
				for i < n && isHex(s[i]) {
					i++
				}
				if i < n && (s[i] == '.' || s[i] == '"' || isLetter(s[i])) {
					return toks, &LexFail{after(i), "sticky"}
				}
			} else {
				for i < n && isDigit(s[i]) {
					i++
				}
				if i < n && (s[i] == '.' || s[i] == 'e' || s[i] == 'E') {
					kind = FLOAT
					if s[i] == '.' {
						i++
						d := i
						for i < n && isDigit(s[i]) {
							i++
						}
						if i == d {
							return toks, &LexFail{i, "dot-digits"}
						}
					}
					if i < n && (s[i] == 'e' || s[i] == 'E') {
						i++
						if i < n && (s[i] == '+' || s[i] == '-') {
							i++
						}
						d := i
						for i < n && isDigit(s[i]) {
							i++
						}
						if i == d {
							return toks, &LexFail{i, "exp-digits"}
						}
					}
				}
				if i < n && (s[i] == '"' || isLetter(s[i])) {
					return toks, &LexFail{after(i), "sticky"}
				}
			}
			toks = append(toks, Tok{kind, s[st:i], st, i})
		case c == '"':
			i++
			for {
				if i >= n {
					return toks, &LexFail{n, "unterminated"}
				}
				if s[i] == '\n' {
					return toks, &LexFail{i + 1, "unterminated"}
				}
				if s[i] == '"' {
					i++
					break
				}
				if s[i] == '\\' {
					i++
					if i >= n {
						return toks, &LexFail{n, "unterminated"}
					}
					if s[i] == '\n' {
						return toks, &LexFail{i + 1, "unterminated"}
					}
					// the escaped character is one whole (possibly multi-byte) character
					_, w := utf8.DecodeRuneInString(s[i:])
					i += w
					continue
				}
				i++
			}
			if i < n && (isLetter(s[i]) || isDigit(s[i])) {
				return toks, &LexFail{i + 1, "sticky"}
			}
			toks = append(toks, Tok{STR, s[st:i], st, i})
		default:
			matched := false
			if i+1 < n {
				for _, op := range twoCharOps {
					if s[i] == op[0] && s[i+1] == op[1] {
						toks = append(toks, Tok{OP, op, i, i + 2})
						i += 2
						matched = true
						break
					}
				}
			}
			if matched {
				break
			}
			if strings.IndexByte(oneCharOps, c) >= 0 {
				toks = append(toks, Tok{OP, string(c), i, i + 1})
				i++
				break
			}
			if c == '!' {
				return toks, &LexFail{i + 1, "bang"}
			}
			return toks, &LexFail{after(i), "unknown-char"}
		}
	}
}

// LitValue gives the value of a literal token, or ok=false if the token is
// lexically fine but does not denote a value (08, 0x, 1e999, "\q", out of range).
func LitValue(t Tok) (v any, ok bool) {
	switch t.Kind {
	case INT:
		return intValue(t.Text)
	case FLOAT:
		f, err := strconv.ParseFloat(t.Text, 64)
		if err != nil {
			return nil, false
		}
		return f, true
	case STR:
		s, err := strconv.Unquote(t.Text)
		if err != nil {
			return nil, false
		}
		return s, true
	}
	return nil, false
}

// intValue: decimal, 0x hex, leading-zero octal; must fit int64. Written by hand
// (no strconv base detection) from the documentation.
func intValue(txt string) (any, bool) {
	base := uint64(10)
	digs := txt
	switch {
	case len(txt) >= 2 && txt[0] == '0' && (txt[1] == 'x' || txt[1] == 'X'):
		base, digs = 16, txt[2:]
	case len(txt) >= 2 && txt[0] == '0':
		base, digs = 8, txt[1:]
	}
	if digs == "" {
		return nil, false
	}
	var x uint64
	for i := 0; i < len(digs); i++ {
		c := digs[i]
		var d uint64
		switch {
		case c >= '0' && c <= '9':
			d = uint64(c - '0')
		case c >= 'a' && c <= 'f':
			d = uint64(c-'a') + 10
		case c >= 'A' && c <= 'F':
			d = uint64(c-'A') + 10
		default:
			return nil, false
		}
		if d >= base {
			return nil, false
		}
		if x > (1<<63-1-d)/base {
			return nil, false
		}
		x = x*base + d
	}
	return int(x), true
}

// Adjacent reports whether two token texts may be written next to each other with
// no separator without changing the token sequence.
func Adjacent(a, b string) bool {
	toks, fail := Lex(a + b)
	if fail != nil || len(toks) != 3 {
		return false
	}
	return toks[0].Text == a && toks[1].Text == b && toks[0].End == len(a)
}
