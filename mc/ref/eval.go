package ref

import (
	"fmt"
	"math"
	"sort"
	"strconv"
	"strings"
)

// Values: nil, int, float64, string, bool. Blocks are *Block.

type Block struct {
	Type, Name string
	Fields     map[string]any // values or *Block (children)
	Order      []string       // insertion order, for readable output only
}

// RunErr is a runtime error: class and the offset it must be reported at.
type RunErr struct {
	Class string
	Off   int
}

type Binding struct {
	Kind   string // struct | slice
	Blocks []*Block
}

type Result struct {
	Out      []string // printed lines
	Blocks   []*Block
	Binding  *Binding
	Err      *RunErr
	Warnings []int // offsets of the bind statements that produced a warning
	// Unspecified: the run used a feature whose behaviour is left open (excluded from comparison)
	Unspecified string
	Vars        map[int]any
}

// MaxStack: live variables plus pending operands (documented limit; exceeding it is a runtime error).
const MaxStack = 1024

type evaluator struct {
	depth  int // live variables + pending operands
	vars   map[int]any
	blocks []*Block // open blocks, outermost first
	res    *Result
	bound  bool
}

type runPanic struct{ e *RunErr }

// MaxRepeat bounds string repetition (beyond it the property itself excludes the input).
const MaxRepeat = 1 << 20

// Run evaluates a parsed program.
func Run(p *Program) (res *Result) {
	ev := &evaluator{vars: map[int]any{}, res: &Result{}}
	res = ev.res
	res.Vars = ev.vars
	defer func() {
		if r := recover(); r != nil {
			rp, ok := r.(runPanic)
			if !ok {
				panic(r)
			}
			res.Err = rp.e
		}
	}()
	ev.stmts(p.Stmts)
	return res
}

func (ev *evaluator) fail(class string, off int) {
	panic(runPanic{&RunErr{class, off}})
}

func (ev *evaluator) stmts(ss []*Stmt) {
	for _, s := range ss {
		ev.stmt(s)
	}
}

func (ev *evaluator) stmt(s *Stmt) {
	switch s.Kind {
	case SVar:
		var v any
		if s.X != nil {
			v = ev.eval(s.X)
		} else {
			ev.push(s.End)
		}
		ev.vars[s.VarID] = v // the value stays on the stack as the variable's slot
	case SPrint:
		v := ev.eval(s.X)
		if _, isB := v.(*Block); isB {
			ev.res.Unspecified = "a block value is printed"
		}
		ev.res.Out = append(ev.res.Out, Show(v))
		ev.depth--
	case SEval, SExpr:
		ev.eval(s.X)
		ev.depth--
	case SDef:
		if len(ev.blocks) == MaxNest {
			ev.fail("too-many-blocks", s.LBrace)
		}
		b := &Block{Type: s.Name, Name: s.BName, Fields: map[string]any{}}
		ev.blocks = append(ev.blocks, b)
		ev.stmts(s.Body)
		for _, bs := range s.Body {
			if bs.Kind == SVar {
				ev.depth-- // the block's variables disappear
			}
		}
		ev.blocks = ev.blocks[:len(ev.blocks)-1]
		if len(ev.blocks) == 0 {
			ev.res.Blocks = append(ev.res.Blocks, b)
			return
		}
		parent := ev.blocks[len(ev.blocks)-1]
		key := b.Type
		if b.Name != "" {
			key = b.Type + "." + b.Name
		}
		if _, dup := parent.Fields[key]; dup {
			ev.fail("dupchild:"+key, s.End)
		}
		parent.Fields[key] = b
		parent.Order = append(parent.Order, key)
	case SBind:
		if ev.bound {
			ev.res.Warnings = append(ev.res.Warnings, s.End)
		}
		var sel []*Block
		for _, b := range ev.res.Blocks {
			if b.Type == s.Name {
				sel = append(sel, b)
			}
		}
		if len(sel) == 0 {
			ev.fail("bind-none:"+s.Name, s.End)
		}
		switch s.Sel {
		case "one":
			if len(sel) != 1 {
				ev.fail(fmt.Sprintf("bind-count:%d:%s", len(sel), s.Name), s.End)
			}
		case "first":
			sel = sel[:1]
		case "last":
			sel = sel[len(sel)-1:]
		}
		ev.res.Binding = &Binding{Kind: s.Target, Blocks: sel}
		ev.bound = true
	}
}

func (ev *evaluator) truthOf(v any) {
	if _, isB := v.(*Block); isB {
		ev.res.Unspecified = "truth value of a block"
	}
}

func (ev *evaluator) cur() *Block { return ev.blocks[len(ev.blocks)-1] }

// push accounts for one more value on the operand stack; at is the offset of the token producing it.
func (ev *evaluator) push(at int) {
	if ev.depth == MaxStack {
		ev.fail("stack-overflow", at)
	}
	ev.depth++
}

func (ev *evaluator) eval(n *Node) any {
	switch n.Kind {
	case NLit:
		ev.push(n.End)
		return n.Val
	case NParen:
		return ev.eval(n.R)
	case NVar:
		ev.push(n.End)
		return ev.vars[n.VarID]
	case NField:
		ev.push(n.End)
		switch n.Name {
		case "TYPE":
			return ev.cur().Type
		case "NAME":
			return ev.cur().Name
		}
		for i := len(ev.blocks) - 1; i >= 0; i-- {
			if v, ok := ev.blocks[i].Fields[n.Name]; ok {
				// an entry of Fields is a field whatever it holds: a closed child block is read like any other
				// value (C02: nearest block that has the name; C03: children are entries of Fields). What
				// printing it, its truth value or an operator on it give is left open (flagged where it is used).
				return v
			}
		}
		ev.fail("unresolved:"+n.Name, n.End)
	case NAssignVar:
		v := ev.eval(n.R)
		ev.vars[n.VarID] = v
		return v
	case NAssignField:
		v := ev.eval(n.R)
		b := ev.cur()
		// a field literally called TYPE or NAME is an ordinary entry of Fields; reading TYPE / NAME
		// still gives the block's own type and name (the property states that unconditionally)
		if old, ok := b.Fields[n.Name]; ok {
			if _, isBlock := old.(*Block); isBlock {
				ev.res.Unspecified = "field assigned under the key of a closed child"
			}
		} else {
			b.Order = append(b.Order, n.Name)
		}
		b.Fields[n.Name] = v
		return v
	case NNot:
		v := ev.eval(n.R)
		ev.truthOf(v)
		return Falsey(v)
	case NAnd:
		l := ev.eval(n.L)
		ev.truthOf(l)
		if Falsey(l) {
			return l
		}
		ev.depth--
		return ev.eval(n.R)
	case NOr:
		l := ev.eval(n.L)
		ev.truthOf(l)
		if Falsey(l) {
			ev.depth--
			return ev.eval(n.R)
		}
		return l
	case NUnary:
		v := ev.eval(n.R)
		if _, isB := v.(*Block); isB {
			ev.res.Unspecified = "operator on a block value"
		}
		switch x := v.(type) {
		case int:
			if n.Op == "-" {
				return -x
			}
			return x
		case float64:
			if n.Op == "-" {
				return -x
			}
			return x
		}
		if n.Op == "-" {
			ev.fail("neg:"+TypeName(v), n.End)
		}
		ev.fail("unplus:"+TypeName(v), n.End)
	case NBinary:
		l := ev.eval(n.L)
		r := ev.eval(n.R)
		ev.depth--
		v, errc, unspec := BinOp(n.Op, l, r)
		if unspec != "" {
			ev.res.Unspecified = unspec
		}
		if errc != "" {
			ev.fail(errc, n.End)
		}
		return v
	}
	panic("ref: bad node")
}

func Falsey(v any) bool {
	switch x := v.(type) {
	case nil:
		return true
	case bool:
		return !x
	case int:
		return x == 0
	case float64:
		return x == 0
	case string:
		return x == ""
	}
	return false
}

func TypeName(v any) string {
	switch v.(type) {
	case nil:
		return "nil"
	case int:
		return "int"
	case float64:
		return "float"
	case string:
		return "string"
	case bool:
		return "bool"
	}
	return "block"
}

func isNum(v any) bool {
	switch v.(type) {
	case int, float64:
		return true
	}
	return false
}

func toF(v any) float64 {
	switch x := v.(type) {
	case int:
		return float64(x)
	case float64:
		return x
	}
	panic("toF")
}

// opFamily names the operator family an error message mentions: ordering comparisons
// are one family whatever instruction they compile to.
func opFamily(op string) string {
	switch op {
	case "+":
		return "add"
	case "-":
		return "sub"
	case "*":
		return "mul"
	case "/":
		return "div"
	case "<", ">", "<=", ">=":
		return "ord"
	}
	return "eq"
}

// BinOp applies a binary operator per the documented rules. errc != "" is the
// runtime-error class; unspec != "" marks behaviour the documentation leaves open.
func BinOp(op string, l, r any) (v any, errc string, unspec string) {
	if _, isB := l.(*Block); isB {
		return nil, "", "operator on a block value"
	}
	if _, isB := r.(*Block); isB {
		return nil, "", "operator on a block value"
	}
	typeErr := "types:" + opFamily(op) + ":" + TypeName(l) + "," + TypeName(r)
	if isNum(l) && isNum(r) {
		li, lInt := l.(int)
		ri, rInt := r.(int)
		if lInt && rInt {
			switch op {
			case "+":
				return li + ri, "", ""
			case "-":
				return li - ri, "", ""
			case "*":
				return li * ri, "", ""
			case "/":
				if ri == 0 {
					return nil, "divzero", ""
				}
				if li == math.MinInt && ri == -1 {
					return li, "", "" // two's complement overflow wraps
				}
				return li / ri, "", ""
			case "==":
				return li == ri, "", ""
			case "!=":
				return li != ri, "", ""
			case "<":
				return li < ri, "", ""
			case "<=":
				return li <= ri, "", ""
			case ">":
				return li > ri, "", ""
			case ">=":
				return li >= ri, "", ""
			}
		}
		if op == "/" && rInt && ri == 0 {
			// float / int zero: "division by int zero" is documented for int zero divisors
			return nil, "divzero", ""
		}
		lf, rf := toF(l), toF(r)
		nan := math.IsNaN(lf) || math.IsNaN(rf)
		switch op {
		case "+":
			return lf + rf, "", ""
		case "-":
			return lf - rf, "", ""
		case "*":
			return lf * rf, "", ""
		case "/":
			return lf / rf, "", ""
		case "==":
			return lf == rf, "", ""
		case "!=":
			return lf != rf, "", ""
		}
		if nan {
			unspec = "ordering with NaN"
		}
		switch op {
		case "<":
			return lf < rf, "", unspec
		case "<=":
			return lf <= rf, "", unspec
		case ">":
			return lf > rf, "", unspec
		case ">=":
			return lf >= rf, "", unspec
		}
	}
	ls, lStr := l.(string)
	rs, rStr := r.(string)
	if lStr && rStr {
		switch op {
		case "+":
			return ls + rs, "", ""
		case "<":
			return ls < rs, "", ""
		case "<=":
			return ls <= rs, "", ""
		case ">":
			return ls > rs, "", ""
		case ">=":
			return ls >= rs, "", ""
		}
	}
	if lStr && op == "+" {
		switch x := r.(type) {
		case int:
			return ls + strconv.Itoa(x), "", ""
		case float64:
			return ls + strconv.FormatFloat(x, 'f', -1, 64), "", ""
		case nil:
			return ls, "", ""
		}
	}
	if lStr && op == "*" {
		if k, ok := r.(int); ok {
			if k < 0 {
				return nil, "repeat-neg", ""
			}
			if k > 0 && len(ls) > 0 && (k > MaxRepeat || len(ls)*k > MaxRepeat) {
				return nil, "", "repetition beyond 2^20 bytes"
			}
			return strings.Repeat(ls, k), "", ""
		}
	}
	switch op {
	case "==":
		return looseEq(l, r), "", ""
	case "!=":
		return !looseEq(l, r), "", ""
	}
	return nil, typeErr, ""
}

// looseEq: equality across all types; values of different non-number types are unequal.
func looseEq(l, r any) bool {
	switch x := l.(type) {
	case nil:
		return r == nil
	case bool:
		y, ok := r.(bool)
		return ok && x == y
	case string:
		y, ok := r.(string)
		return ok && x == y
	case int, float64:
		if isNum(r) {
			return toF(l) == toF(r)
		}
	}
	return false
}

// Show renders a value the way `print` does.
func Show(v any) string {
	switch x := v.(type) {
	case nil:
		return "<nil>"
	case int:
		return strconv.Itoa(x)
	case float64:
		return showFloat(x)
	case string:
		return x
	case bool:
		if x {
			return "true"
		}
		return "false"
	}
	return "<block>"
}

// showFloat: Go's %v for float64 = shortest repr, %e form for exp < -4 || exp >= 21.
func showFloat(f float64) string {
	switch {
	case math.IsInf(f, 1):
		return "+Inf"
	case math.IsInf(f, -1):
		return "-Inf"
	case math.IsNaN(f):
		return "NaN"
	}
	return strconv.FormatFloat(f, 'g', -1, 64)
}

// ---------------------------------------------------------------- canonical text (same shape as impl.BlocksStr)

func ValStr(v any) string {
	switch x := v.(type) {
	case nil:
		return "nil"
	case int:
		return fmt.Sprintf("int:%d", x)
	case float64:
		return fmt.Sprintf("float:%x", math.Float64bits(x))
	case string:
		return fmt.Sprintf("str:%q", x)
	case bool:
		return fmt.Sprintf("bool:%v", x)
	case *Block:
		return BlockStr(x)
	}
	return "?"
}

func BlockStr(b *Block) string {
	var sb strings.Builder
	fmt.Fprintf(&sb, "{%s %q", b.Type, b.Name)
	keys := make([]string, 0, len(b.Fields))
	for k := range b.Fields {
		keys = append(keys, k)
	}
	sort.Strings(keys)
	for _, k := range keys {
		fmt.Fprintf(&sb, " %s=%s", k, ValStr(b.Fields[k]))
	}
	sb.WriteString("}")
	return sb.String()
}

func BlocksStr(bs []*Block) string {
	var s []string
	for _, b := range bs {
		s = append(s, BlockStr(b))
	}
	return "[" + strings.Join(s, " ") + "]"
}

func BindingStr(b *Binding) string {
	if b == nil {
		return "<nil>"
	}
	if b.Kind == "struct" {
		return "struct:" + BlockStr(b.Blocks[0])
	}
	return "slice:" + BlocksStr(b.Blocks)
}

// LineCol converts a byte offset to line:col by counting newlines.
func LineCol(src string, off int) (line, col int) {
	line = 1
	last := -1
	for i := 0; i < off && i < len(src); i++ {
		if src[i] == '\n' {
			line++
			last = i
		}
	}
	return line, off - last
}

// Offset converts line:col back to a byte offset; ok=false if no such position exists.
func Offset(src string, line, col int) (off int, ok bool) {
	if line < 1 || col < 1 {
		return 0, false
	}
	start := 0 // offset of first byte of the line
	l := 1
	for i := 0; i < len(src) && l < line; i++ {
		if src[i] == '\n' {
			l++
			start = i + 1
		}
	}
	if l != line {
		return 0, false
	}
	// column c designates offset start + c - 1 ... but the offset is "just after" the token:
	// col = off - lastNewline = off - (start-1)  =>  off = start - 1 + col
	off = start - 1 + col
	if off > len(src) {
		return 0, false
	}
	// canonical form only: no newline between the line start and the offset
	for i := start; i < off && i < len(src); i++ {
		if src[i] == '\n' {
			return 0, false
		}
	}
	return off, true
}
