package bc

import (
	"fmt"
)

const (
	StackSize      = 1024
	BlockStackSize = 16
)

// VerifyStats reports what the abstract exploration covered.
type VerifyStats struct {
	States        int // abstract states (pc, depth, blockDepth) visited
	Transitions   int
	Instrs        int // instruction starts (linear tiling)
	JFalseSites   int // JFALSE instructions whose both successors were explored
	MaxDepth      int
	MaxBlockDepth int
	MaxJump       int // largest forward jump operand
}

type absState struct{ pc, depth, blocks int }

// Verify explores the abstract state space (pc, operand depth, block depth) of a
// program over both successors of every JFALSE and checks the structural invariants
// of C10 in every state. It returns the first violated invariant.
func Verify(p *Prog) (VerifyStats, error) {
	var st VerifyStats
	code := p.Code
	if len(code) == 0 {
		return st, fmt.Errorf("empty code")
	}
	if len(p.Positions) != len(code) {
		return st, fmt.Errorf("positions table has %d entries for %d code bytes", len(p.Positions), len(code))
	}
	// linear tiling
	list, err := Listing(code)
	if err != nil {
		return st, fmt.Errorf("code does not tile into instructions: %w", err)
	}
	st.Instrs = len(list)
	starts := map[int]bool{}
	for _, in := range list {
		starts[in.Off] = true
	}
	if last := list[len(list)-1]; last.Op != RET {
		return st, fmt.Errorf("last instruction is %s, not RET", OpNames[last.Op])
	}
	isStr := func(idx int) bool {
		if idx < 0 || idx >= len(p.Consts) {
			return false
		}
		_, ok := p.Consts[idx].(string)
		return ok
	}
	seen := map[int]absState{}
	work := []absState{{0, 0, 0}}
	seen[0] = absState{0, 0, 0}
	st.States = 1
	visit := func(from Instr, s absState) error {
		st.Transitions++
		if s.pc >= len(code) {
			return fmt.Errorf("%s at %d: control runs past the end of the code (to %d)", OpNames[from.Op], from.Off, s.pc)
		}
		if s.pc < 0 || !starts[s.pc] {
			return fmt.Errorf("%s at %d: target %d is not an instruction boundary", OpNames[from.Op], from.Off, s.pc)
		}
		if old, ok := seen[s.pc]; ok {
			if old != s {
				return fmt.Errorf("pc %d reached with depth %d/blocks %d and with depth %d/blocks %d", s.pc, old.depth, old.blocks, s.depth, s.blocks)
			}
			return nil
		}
		seen[s.pc] = s
		st.States++
		work = append(work, s)
		return nil
	}
	for len(work) > 0 {
		s := work[len(work)-1]
		work = work[:len(work)-1]
		in, err := DecodeInstr(code, s.pc)
		if err != nil {
			return st, err
		}
		if s.depth > st.MaxDepth {
			st.MaxDepth = s.depth
		}
		if s.blocks > st.MaxBlockDepth {
			st.MaxBlockDepth = s.blocks
		}
		need := func(n int) error {
			if s.depth < n {
				return fmt.Errorf("%s at %d needs %d operands, depth is %d", OpNames[in.Op], in.Off, n, s.depth)
			}
			return nil
		}
		next := absState{s.pc + in.Len, s.depth, s.blocks}
		switch in.Op {
		case NOP:
		case RET:
			if s.depth != 0 || s.blocks != 0 {
				return st, fmt.Errorf("RET at %d with depth %d, open blocks %d", in.Off, s.depth, s.blocks)
			}
			continue
		case PRINT, POP:
			if err := need(1); err != nil {
				return st, err
			}
			next.depth--
		case POPN:
			if err := need(in.A); err != nil {
				return st, err
			}
			next.depth -= in.A
		case SETLOCAL:
			if err := need(1); err != nil {
				return st, err
			}
			if in.A >= s.depth {
				return st, fmt.Errorf("SETLOCAL at %d: slot %d not live (depth %d)", in.Off, in.A, s.depth)
			}
		case GETLOCAL:
			if in.A >= s.depth {
				return st, fmt.Errorf("GETLOCAL at %d: slot %d not live (depth %d)", in.Off, in.A, s.depth)
			}
			next.depth++
		case DEFBLOCK:
			if !isStr(in.A) || !isStr(in.B) {
				return st, fmt.Errorf("DEFBLOCK at %d: operands %d,%d are not string constants", in.Off, in.A, in.B)
			}
			next.blocks++
			if next.blocks > BlockStackSize {
				// the VM reports this as a runtime error; no state beyond the limit exists
				continue
			}
		case ENDBLOCK:
			if s.blocks < 1 {
				return st, fmt.Errorf("ENDBLOCK at %d without an open block", in.Off)
			}
			next.blocks--
		case SETFIELD:
			if err := need(1); err != nil {
				return st, err
			}
			if !isStr(in.A) {
				return st, fmt.Errorf("SETFIELD at %d: operand %d is not a string constant", in.Off, in.A)
			}
			if s.blocks < 1 {
				return st, fmt.Errorf("SETFIELD at %d outside a block", in.Off)
			}
		case GETFIELD:
			if !isStr(in.A) {
				return st, fmt.Errorf("GETFIELD at %d: operand %d is not a string constant", in.Off, in.A)
			}
			if s.blocks < 1 {
				return st, fmt.Errorf("GETFIELD at %d outside a block", in.Off)
			}
			next.depth++
		case CONST:
			if in.A >= len(p.Consts) {
				return st, fmt.Errorf("CONST at %d: index %d beyond %d constants", in.Off, in.A, len(p.Consts))
			}
			next.depth++
		case NIL, ZERO, ONE, TRUE, FALSE:
			next.depth++
		case NOT, NEG, UNPLUS:
			if err := need(1); err != nil {
				return st, err
			}
		case EQ, LT, GT, ADD, SUB, MUL, DIV:
			if err := need(2); err != nil {
				return st, err
			}
			next.depth--
		case JUMP:
			if in.A > st.MaxJump {
				st.MaxJump = in.A
			}
			next.pc += in.A
		case LOOP:
			next.pc -= in.A
		case JFALSE:
			if err := need(1); err != nil {
				return st, err
			}
			if in.A > st.MaxJump {
				st.MaxJump = in.A
			}
			taken := next
			taken.pc += in.A
			if err := visit(in, taken); err != nil {
				return st, err
			}
			st.JFalseSites++
		case BIND:
			if !isStr(in.A) {
				return st, fmt.Errorf("BIND at %d: operand %d is not a string constant", in.Off, in.A)
			}
			tgt, sel := in.B&0xF0, in.B&0x0F
			okT := tgt == BindStruct || tgt == BindSlice
			okS := sel == SelOne || sel == SelFirst || sel == SelLast || sel == SelAll
			if !okT || !okS || (sel == SelAll && tgt != BindSlice) {
				return st, fmt.Errorf("BIND at %d: invalid target/selector byte 0x%02X", in.Off, in.B)
			}
		default:
			return st, fmt.Errorf("unknown opcode %d at %d", in.Op, in.Off)
		}
		if next.depth > StackSize {
			// the VM reports overflow as a runtime error; no state beyond the limit exists
			continue
		}
		if err := visit(in, next); err != nil {
			return st, err
		}
	}
	// no unreachable instruction
	for _, in := range list {
		if _, ok := seen[in.Off]; !ok {
			// code after a point where a limit error is certain is legitimately unreachable
			if st.MaxDepth >= StackSize || st.MaxBlockDepth >= BlockStackSize {
				break
			}
			return st, fmt.Errorf("unreachable instruction %s at %d", OpNames[in.Op], in.Off)
		}
	}
	return st, nil
}
