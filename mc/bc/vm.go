package bc

import (
	"fmt"

	"verif/mc/ref"
)

// RunResult is what the reference VM observes.
type RunResult struct {
	Out      []string
	Blocks   []*ref.Block
	Binding  *ref.Binding
	ErrClass string // "" if none
	ErrPC    int    // offset of the failing instruction
	Warnings []int  // offsets of BIND instructions that warned
	Trace    []int  // executed instruction offsets
	Steps    int
	MaxDepth int
	// Unspecified: behaviour the documentation leaves open was used
	Unspecified string
	Internal    string // non-empty: malformed program (verifier should have caught it)
}

func constVal(c any) any {
	if x, ok := c.(int64); ok {
		return int(x)
	}
	return c
}

// Run executes a decoded program with the reference value semantics (mc/ref).
// It is a plain switch over the pinned opcode numbers. maxSteps bounds LOOPs.
func Run(p *Prog, maxSteps int) (res *RunResult) {
	res = &RunResult{}
	defer func() {
		if r := recover(); r != nil {
			res.Internal = fmt.Sprint("reference VM: ", r)
		}
	}()
	var stack []any
	var blocks []*ref.Block
	bound := false
	pc := 0
	push := func(v any) {
		stack = append(stack, v)
		if len(stack) > res.MaxDepth {
			res.MaxDepth = len(stack)
		}
	}
	pop := func() any {
		v := stack[len(stack)-1]
		stack = stack[:len(stack)-1]
		return v
	}
	fail := func(class string, at int) *RunResult {
		res.ErrClass, res.ErrPC = class, at
		return res
	}
	for {
		if res.Steps >= maxSteps {
			res.Internal = "step limit"
			return res
		}
		in, err := DecodeInstr(p.Code, pc)
		if err != nil {
			res.Internal = err.Error()
			return res
		}
		res.Trace = append(res.Trace, pc)
		res.Steps++
		next := pc + in.Len
		pushes := false
		switch in.Op {
		case CONST, NIL, ZERO, ONE, TRUE, FALSE, GETLOCAL, GETFIELD:
			pushes = true
		}
		if pushes && len(stack) == StackSize {
			return fail("stack-overflow", pc)
		}
		switch in.Op {
		case NOP:
		case RET:
			if len(stack) != 0 {
				res.Internal = fmt.Sprintf("non-empty stack at RET: %d", len(stack))
			}
			return res
		case PRINT:
			v := pop()
			if _, isB := v.(*ref.Block); isB {
				res.Unspecified = "a block value is printed"
			}
			res.Out = append(res.Out, ref.Show(v))
		case SETLOCAL:
			stack[in.A] = stack[len(stack)-1]
		case GETLOCAL:
			push(stack[in.A])
		case DEFBLOCK:
			if len(blocks) == BlockStackSize {
				return fail("too-many-blocks", pc)
			}
			blocks = append(blocks, &ref.Block{Type: p.Consts[in.A].(string), Name: p.Consts[in.B].(string), Fields: map[string]any{}})
		case ENDBLOCK:
			b := blocks[len(blocks)-1]
			blocks = blocks[:len(blocks)-1]
			if len(blocks) == 0 {
				res.Blocks = append(res.Blocks, b)
				break
			}
			key := b.Type
			if b.Name != "" {
				key += "." + b.Name
			}
			parent := blocks[len(blocks)-1]
			if _, dup := parent.Fields[key]; dup {
				return fail("dupchild:"+key, pc)
			}
			parent.Fields[key] = b
		case SETFIELD:
			name := p.Consts[in.A].(string)
			cur := blocks[len(blocks)-1]
			if old, ok := cur.Fields[name]; ok {
				if _, isB := old.(*ref.Block); isB {
					res.Unspecified = "field assigned under the key of a closed child"
				}
			}
			cur.Fields[name] = stack[len(stack)-1]
		case GETFIELD:
			name := p.Consts[in.A].(string)
			cur := blocks[len(blocks)-1]
			switch name {
			case "TYPE":
				push(cur.Type)
			case "NAME":
				push(cur.Name)
			default:
				found := false
				for i := len(blocks) - 1; i >= 0; i-- {
					if v, ok := blocks[i].Fields[name]; ok {
						push(v)
						found = true
						break
					}
				}
				if !found {
					return fail("unresolved:"+name, pc)
				}
			}
		case CONST:
			push(constVal(p.Consts[in.A]))
		case NIL:
			push(nil)
		case ZERO:
			push(0)
		case ONE:
			push(1)
		case TRUE:
			push(true)
		case FALSE:
			push(false)
		case NOT:
			if _, isB := stack[len(stack)-1].(*ref.Block); isB {
				res.Unspecified = "truth value of a block"
			}
			stack[len(stack)-1] = ref.Falsey(stack[len(stack)-1])
		case EQ, LT, GT, ADD, SUB, MUL, DIV:
			op := map[int]string{EQ: "==", LT: "<", GT: ">", ADD: "+", SUB: "-", MUL: "*", DIV: "/"}[in.Op]
			r, l := stack[len(stack)-1], stack[len(stack)-2]
			v, errc, unspec := ref.BinOp(op, l, r)
			if unspec != "" {
				res.Unspecified = unspec
				if len(unspec) >= 10 && unspec[:10] == "repetition" {
					return res
				}
			}
			if errc != "" {
				return fail(errc, pc)
			}
			stack = stack[:len(stack)-2]
			push(v)
		case NEG, UNPLUS:
			v := stack[len(stack)-1]
			switch x := v.(type) {
			case int:
				if in.Op == NEG {
					stack[len(stack)-1] = -x
				}
			case float64:
				if in.Op == NEG {
					stack[len(stack)-1] = -x
				}
			default:
				if _, isB := v.(*ref.Block); isB {
					res.Unspecified = "operator on a block value"
				}
				if in.Op == NEG {
					return fail("neg:"+ref.TypeName(v), pc)
				}
				return fail("unplus:"+ref.TypeName(v), pc)
			}
		case JUMP:
			next += in.A
		case LOOP:
			next -= in.A
		case JFALSE:
			if _, isB := stack[len(stack)-1].(*ref.Block); isB {
				res.Unspecified = "truth value of a block"
			}
			if ref.Falsey(stack[len(stack)-1]) {
				next += in.A
			}
		case POP:
			pop()
		case POPN:
			stack = stack[:len(stack)-in.A]
		case BIND:
			if bound {
				res.Warnings = append(res.Warnings, pc)
			}
			typ := p.Consts[in.A].(string)
			var sel []*ref.Block
			for _, b := range res.Blocks {
				if b.Type == typ {
					sel = append(sel, b)
				}
			}
			if len(sel) == 0 {
				return fail("bind-none:"+typ, pc)
			}
			s := in.B & 0x0F
			if s == SelOne && len(sel) != 1 {
				return fail(fmt.Sprintf("bind-count:%d:%s", len(sel), typ), pc)
			}
			switch s {
			case SelOne, SelFirst:
				sel = sel[:1]
			case SelLast:
				sel = sel[len(sel)-1:]
			}
			kind := "struct"
			if in.B&0xF0 == BindSlice {
				kind = "slice"
			}
			res.Binding = &ref.Binding{Kind: kind, Blocks: sel}
			bound = true
		default:
			res.Internal = fmt.Sprintf("unknown opcode %d", in.Op)
			return res
		}
		pc = next
	}
}
