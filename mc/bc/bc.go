// Package bc is an independent implementation of the bcl bytecode format 1.1:
// dump decoder/encoder, instruction decoder, verifier, reference VM.
// All numbers are pinned here (DESIGN.md appendix B); nothing is imported from /repo.
package bc

import (
	"encoding/binary"
	"errors"
	"fmt"
	"math"
)

// Pinned opcode numbers.
const (
	NOP = iota
	RET
	PRINT
	SETLOCAL
	GETLOCAL
	DEFBLOCK
	ENDBLOCK
	SETFIELD
	GETFIELD
	CONST
	NIL
	ZERO
	ONE
	TRUE
	FALSE
	NOT
	EQ
	LT
	GT
	ADD
	SUB
	MUL
	DIV
	NEG
	UNPLUS
	JUMP
	LOOP
	JFALSE
	POP
	POPN
	BIND
	NumOps
)

var OpNames = [...]string{"NOP", "RET", "PRINT", "SETLOCAL", "GETLOCAL", "DEFBLOCK", "ENDBLOCK", "SETFIELD",
	"GETFIELD", "CONST", "NIL", "ZERO", "ONE", "TRUE", "FALSE", "NOT", "EQ", "LT", "GT", "ADD", "SUB", "MUL", "DIV",
	"NEG", "UNPLUS", "JUMP", "LOOP", "JFALSE", "POP", "POPN", "BIND"}

func init() {
	if len(OpNames) != NumOps || BIND != 30 || JFALSE != 27 || CONST != 9 {
		panic("pinned opcode table broken")
	}
}

// Pinned type codes.
const (
	TNil   = 0
	TInt   = 1
	TFloat = 2
	TStr   = 3
	TBool  = 4
)

// Bind operand.
const (
	BindStruct = 0x10
	BindSlice  = 0x20
	SelOne     = 1
	SelFirst   = 2
	SelLast    = 3
	SelAll     = 0xF
)

// ---------------------------------------------------------------- sqlite4 varint

// PutUvarint appends the sqlite4 varint of x.
func PutUvarint(b []byte, x uint64) []byte {
	switch {
	case x <= 240:
		return append(b, byte(x))
	case x <= 2287:
		y := x - 240
		return append(b, byte(y/256+241), byte(y%256))
	case x <= 67823:
		y := x - 2288
		return append(b, 249, byte(y/256), byte(y%256))
	}
	// 250..255: 3..8 bytes big endian
	n := 3
	for x>>(8*uint(n)) != 0 {
		n++
	}
	b = append(b, byte(250+n-3))
	for i := n - 1; i >= 0; i-- {
		b = append(b, byte(x>>(8*uint(i))))
	}
	return b
}

var ErrShort = errors.New("short")

// Uvarint decodes one sqlite4 varint.
func Uvarint(b []byte) (uint64, int, error) {
	if len(b) == 0 {
		return 0, 0, ErrShort
	}
	a0 := uint64(b[0])
	switch {
	case a0 <= 240:
		return a0, 1, nil
	case a0 <= 248:
		if len(b) < 2 {
			return 0, 0, ErrShort
		}
		return 240 + 256*(a0-241) + uint64(b[1]), 2, nil
	case a0 == 249:
		if len(b) < 3 {
			return 0, 0, ErrShort
		}
		return 2288 + 256*uint64(b[1]) + uint64(b[2]), 3, nil
	}
	n := int(a0) - 250 + 3
	if len(b) < 1+n {
		return 0, 0, ErrShort
	}
	var x uint64
	for i := 0; i < n; i++ {
		x = x<<8 | uint64(b[1+i])
	}
	return x, 1 + n, nil
}

// ---------------------------------------------------------------- dump file

type Prog struct {
	Major, Minor byte
	Name         string
	Code         []byte
	Consts       []any // nil, int64, float64, string, bool
	Positions    []int
	Lfs          []int
	// Offsets of the sections in the file (start of each length prefix), for cut-point selection.
	Sections []int
}

func Decode(d []byte) (*Prog, error) {
	p := &Prog{}
	if len(d) < 4 {
		return nil, fmt.Errorf("header: %w", ErrShort)
	}
	if d[0] != 0xFC || d[1] != 0x6C {
		return nil, errors.New("bad magic")
	}
	p.Major, p.Minor = d[2], d[3]
	off := 4
	uv := func(what string) (int, error) {
		x, n, err := Uvarint(d[off:])
		if err != nil {
			return 0, fmt.Errorf("%s: %w", what, err)
		}
		if x > 1<<40 {
			return 0, fmt.Errorf("%s: absurd size %d", what, x)
		}
		off += n
		return int(x), nil
	}
	take := func(n int, what string) ([]byte, error) {
		if off+n > len(d) {
			return nil, fmt.Errorf("%s: %w", what, ErrShort)
		}
		b := d[off : off+n]
		off += n
		return b, nil
	}
	p.Sections = append(p.Sections, off)
	n, err := uv("name size")
	if err != nil {
		return nil, err
	}
	b, err := take(n, "name")
	if err != nil {
		return nil, err
	}
	p.Name = string(b)

	p.Sections = append(p.Sections, off)
	if n, err = uv("code size"); err != nil {
		return nil, err
	}
	if b, err = take(n, "code"); err != nil {
		return nil, err
	}
	p.Code = append([]byte{}, b...)

	p.Sections = append(p.Sections, off)
	if n, err = uv("constants size"); err != nil {
		return nil, err
	}
	for i := 0; i < n; i++ {
		t, err := take(1, "const type")
		if err != nil {
			return nil, err
		}
		switch t[0] {
		case TNil:
			p.Consts = append(p.Consts, nil)
		case TInt:
			x, k, err := Uvarint(d[off:])
			if err != nil {
				return nil, fmt.Errorf("const int: %w", err)
			}
			off += k
			p.Consts = append(p.Consts, int64(x)) // two's complement reinterpretation
		case TFloat:
			fb, err := take(8, "const float")
			if err != nil {
				return nil, err
			}
			p.Consts = append(p.Consts, math.Float64frombits(binary.BigEndian.Uint64(fb)))
		case TStr:
			k, err := uv("const str size")
			if err != nil {
				return nil, err
			}
			sb, err := take(k, "const str")
			if err != nil {
				return nil, err
			}
			p.Consts = append(p.Consts, string(sb))
		case TBool:
			bb, err := take(1, "const bool")
			if err != nil {
				return nil, err
			}
			p.Consts = append(p.Consts, bb[0] != 0)
		default:
			return nil, fmt.Errorf("const[%d]: unknown type code %d", i, t[0])
		}
	}
	p.Sections = append(p.Sections, off)
	if n, err = uv("positions size"); err != nil {
		return nil, err
	}
	p.Positions = make([]int, 0, n)
	for i := 0; i < n; i++ {
		x, err := uv("position")
		if err != nil {
			return nil, err
		}
		p.Positions = append(p.Positions, x)
	}
	p.Sections = append(p.Sections, off)
	if n, err = uv("lfs size"); err != nil {
		return nil, err
	}
	p.Lfs = make([]int, 0, n)
	for i := 0; i < n; i++ {
		x, err := uv("lf")
		if err != nil {
			return nil, err
		}
		p.Lfs = append(p.Lfs, x)
	}
	if off != len(d) {
		return nil, fmt.Errorf("trailing garbage: %d bytes", len(d)-off)
	}
	p.Sections = append(p.Sections, off)
	return p, nil
}

// Encode writes a version 1.x dump.
func (p *Prog) Encode() []byte {
	d := []byte{0xFC, 0x6C, p.Major, p.Minor}
	d = PutUvarint(d, uint64(len(p.Name)))
	d = append(d, p.Name...)
	d = PutUvarint(d, uint64(len(p.Code)))
	d = append(d, p.Code...)
	d = PutUvarint(d, uint64(len(p.Consts)))
	for _, c := range p.Consts {
		switch v := c.(type) {
		case nil:
			d = append(d, TNil)
		case int64:
			d = append(d, TInt)
			d = PutUvarint(d, uint64(v))
		case int:
			d = append(d, TInt)
			d = PutUvarint(d, uint64(int64(v)))
		case float64:
			d = append(d, TFloat)
			d = binary.BigEndian.AppendUint64(d, math.Float64bits(v))
		case string:
			d = append(d, TStr)
			d = PutUvarint(d, uint64(len(v)))
			d = append(d, v...)
		case bool:
			d = append(d, TBool)
			if v {
				d = append(d, 1)
			} else {
				d = append(d, 0)
			}
		default:
			panic(fmt.Sprintf("bc.Encode: bad const %T", c))
		}
	}
	d = PutUvarint(d, uint64(len(p.Positions)))
	for _, x := range p.Positions {
		d = PutUvarint(d, uint64(x))
	}
	d = PutUvarint(d, uint64(len(p.Lfs)))
	for _, x := range p.Lfs {
		d = PutUvarint(d, uint64(x))
	}
	return d
}

// ---------------------------------------------------------------- instructions

type Instr struct {
	Off  int
	Op   int
	A, B int // operands (uvarint / u16 / bind byte in B)
	Len  int
}

// OperandKinds: 'v' uvarint, 'j' u16, 'b' byte.
func operandKinds(op int) string {
	switch op {
	case SETLOCAL, GETLOCAL, SETFIELD, GETFIELD, CONST, POPN:
		return "v"
	case DEFBLOCK:
		return "vv"
	case JUMP, LOOP, JFALSE:
		return "j"
	case BIND:
		return "vb"
	}
	return ""
}

func DecodeInstr(code []byte, off int) (Instr, error) {
	if off < 0 || off >= len(code) {
		return Instr{}, fmt.Errorf("pc %d outside code of %d bytes", off, len(code))
	}
	in := Instr{Off: off, Op: int(code[off])}
	if in.Op >= NumOps {
		return in, fmt.Errorf("unknown opcode %d at %d", in.Op, off)
	}
	p := off + 1
	ops := [2]*int{&in.A, &in.B}
	for i, k := range operandKinds(in.Op) {
		switch k {
		case 'v':
			x, n, err := Uvarint(code[p:])
			if err != nil {
				return in, fmt.Errorf("%s at %d: operand runs past the code", OpNames[in.Op], off)
			}
			if x > math.MaxInt32 {
				return in, fmt.Errorf("%s at %d: absurd operand %d", OpNames[in.Op], off, x)
			}
			*ops[i] = int(x)
			p += n
		case 'j':
			if p+2 > len(code) {
				return in, fmt.Errorf("%s at %d: operand runs past the code", OpNames[in.Op], off)
			}
			*ops[i] = int(code[p])<<8 | int(code[p+1])
			p += 2
		case 'b':
			if p+1 > len(code) {
				return in, fmt.Errorf("%s at %d: operand runs past the code", OpNames[in.Op], off)
			}
			*ops[i] = int(code[p])
			p++
		}
	}
	in.Len = p - off
	return in, nil
}

// Listing decodes the code linearly (tiling); error if it does not tile exactly.
func Listing(code []byte) ([]Instr, error) {
	var out []Instr
	for off := 0; off < len(code); {
		in, err := DecodeInstr(code, off)
		if err != nil {
			return out, err
		}
		out = append(out, in)
		off += in.Len
	}
	return out, nil
}

func (in Instr) String() string {
	switch operandKinds(in.Op) {
	case "":
		return OpNames[in.Op]
	case "v", "j":
		return fmt.Sprintf("%s %d", OpNames[in.Op], in.A)
	default:
		return fmt.Sprintf("%s %d %d", OpNames[in.Op], in.A, in.B)
	}
}
