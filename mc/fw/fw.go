// Package fw is the plumbing shared by all checks: process-sharded exhaustive
// enumeration, violation confirmation (5x re-run), replay files, known findings,
// evidence files.
//
// A check is a function that enumerates cases and hands each one to Ctx.Do together
// with the sub-check (an executable oracle) that judges it. The parent process
// starts N worker processes; worker k executes the cases whose key hashes to k, so
// every case is executed exactly once, duplicates land in one worker (and are
// executed once), and the library is only ever called from one goroutine per process.
package fw

import (
	"crypto/sha256"
	"encoding/hex"
	"encoding/json"
	"fmt"
	"hash/fnv"
	"os"
	"runtime/debug"
	"sort"
	"sync/atomic"
	"time"
)

// Case is one element of an enumerated space. It must be JSON round-trippable.
type Case interface {
	Key() string
}

// Sharder lets a case choose the key that decides which worker owns it (so that an
// enumerator can skip whole sub-spaces with Ctx.Mine on the same key).
type Sharder interface {
	ShardKey() string
}

// Fail describes how a case violated its oracle.
type Fail struct {
	Expected string `json:"expected"`
	Observed string `json:"observed"`
}

func Failf(exp string, format string, a ...any) *Fail {
	return &Fail{Expected: exp, Observed: fmt.Sprintf(format, a...)}
}

// Sub is a sub-check: a named oracle over a case type.
type Sub struct {
	Name string
	New  func() Case
	Exec func(Case) *Fail
	// MayKill: the case can kill the process (library goroutines), so the parent
	// attributes a worker death to the case in flight.
}

// Check is one property's check.
type Check struct {
	ID    string // property id
	Level string // evidence level
	Rule  string // how cases are enumerated and what makes one non-trivial
	Subs  []*Sub
	// Run enumerates the space for a tier and calls c.Do for every case.
	Run func(c *Ctx)
	// Finish runs in the parent after merging; it may add vacuity failures
	// (returned as strings -> INFRA error, exit 2) and extra evidence keys.
	Finish      func(m *Merged) []string
	Assumptions []string
	// Budget per tier in seconds (internal deadline: stop with exhaustive=false).
	BudgetQuick, BudgetThorough int
	// Workers overrides the number of worker processes (0 = NumCPU).
	Workers int
}

var registry = map[string]*Check{}

func Register(c *Check)       { registry[c.ID] = c }
func Lookup(id string) *Check { return registry[id] }
func IDs() []string {
	var s []string
	for k := range registry {
		s = append(s, k)
	}
	sort.Strings(s)
	return s
}

// Violation is a confirmed (reproduced) failure.
type Violation struct {
	Property   string          `json:"property"`
	Sub        string          `json:"check"`
	Key        string          `json:"key"`
	Case       json.RawMessage `json:"case"`
	Expected   string          `json:"expected"`
	Observed   string          `json:"observed"`
	Reproduced int             `json:"reproduced_n"`
	Crash      bool            `json:"crash,omitempty"`
}

func (v *Violation) Sig() string {
	h := sha256.Sum256([]byte(v.Sub + "\x00" + v.Key))
	return hex.EncodeToString(h[:8])
}

// WorkerResult is what a worker writes for the parent.
type WorkerResult struct {
	Shard       int              `json:"shard"`
	Done        bool             `json:"done"`
	Evaluations int64            `json:"evaluations"`
	Distinct    int64            `json:"distinct"`
	Nontrivial  int64            `json:"nontrivial"`
	Counters    map[string]int64 `json:"counters"`
	Outcomes    map[string]int64 `json:"outcomes"`
	Samples     []any            `json:"samples"`
	Violations  []*Violation     `json:"violations"`
	Unstable    []*Violation     `json:"unstable"`
	ViolationsN int64            `json:"violations_n"`
	CapsHit     []string         `json:"caps_hit"`
	Bounds      map[string]any   `json:"bounds"`
	DeadlineHit bool             `json:"deadline_hit"`
	HungKey     string           `json:"hung_key,omitempty"`
	HungSub     string           `json:"hung_sub,omitempty"`
	HungCase    json.RawMessage  `json:"hung_case,omitempty"`
	InfraErrors []string         `json:"infra_errors"`
}

// Ctx is the per-worker context handed to Check.Run.
type Ctx struct {
	Check    *Check
	Tier     string
	Seed     int64
	Shard    int
	NShards  int
	Deadline time.Time
	res      *WorkerResult
	seen     map[uint64]struct{}
	skip     map[string]bool
	trace    *os.File // when set: write sub+key+case before each execution
	cur      atomic.Pointer[inflight]
	maxViol  int
	stopped  bool
	// Replaying: Do executes every case regardless of shard.
	all bool
}

type inflight struct {
	sub   string
	key   string
	cs    Case
	start time.Time
}

func (c *Ctx) Quick() bool    { return c.Tier == "quick" }
func (c *Ctx) Thorough() bool { return c.Tier != "quick" }

// Expired reports whether the internal deadline passed; enumerators should stop
// (the run then reports exhaustive=false and what was completed).
func (c *Ctx) Expired() bool {
	if c.stopped {
		return true
	}
	if time.Now().After(c.Deadline) {
		if !c.res.DeadlineHit {
			c.res.DeadlineHit = true
		}
		c.stopped = true
		return true
	}
	return false
}

func (c *Ctx) Count(name string, n int64) { c.res.Counters[name] += n }
func (c *Ctx) Outcome(class string)       { c.res.Outcomes[class]++ }
func (c *Ctx) Cap(what string)            { c.res.CapsHit = append(c.res.CapsHit, what) }
func (c *Ctx) Bound(name string, v any)   { c.res.Bounds[name] = v }
func (c *Ctx) Infra(format string, a ...any) {
	if len(c.res.InfraErrors) < 20 {
		c.res.InfraErrors = append(c.res.InfraErrors, fmt.Sprintf(format, a...))
	}
}
func (c *Ctx) Nontrivial() { c.res.Nontrivial++ }

func hash64(s string) uint64 {
	h := fnv.New64a()
	h.Write([]byte(s))
	return h.Sum64()
}

// Mine tells whether this worker owns the key (use it to skip expensive
// generation of a whole sub-space; Do applies it per case anyway).
func (c *Ctx) Mine(key string) bool {
	if c.all {
		return true
	}
	return int(hash64(key)%uint64(c.NShards)) == c.Shard
}

// Do executes one case under sub if this worker owns it and it was not executed before.
// It returns true if the case was executed here (so callers can count non-trivial ones).
func (c *Ctx) Do(sub *Sub, cs Case) bool {
	if c.stopped {
		return false
	}
	if c.res.Evaluations&1023 == 1023 && !c.all {
		c.Expired() // hard guard: enumerators that forget to ask still stop at the deadline
	}
	key := cs.Key()
	hk := hash64(sub.Name + "\x00" + key)
	sk := key
	if s, ok := cs.(Sharder); ok {
		sk = s.ShardKey()
	}
	if !c.Mine(sk) {
		return false
	}
	if _, dup := c.seen[hk]; dup {
		c.res.Counters["duplicates_skipped"]++
		return false
	}
	c.seen[hk] = struct{}{}
	if c.skip[sub.Name+"\x00"+key] {
		c.res.Counters["skipped_after_crash"]++
		return false
	}
	c.res.Evaluations++
	c.res.Distinct++
	if len(c.res.Samples) < 6 && (c.res.Evaluations == 1 || c.res.Evaluations%997 == 3) {
		c.res.Samples = append(c.res.Samples, map[string]any{"check": sub.Name, "case": cs})
	}
	if c.trace != nil {
		b, _ := json.Marshal(cs)
		fmt.Fprintf(c.trace, "%s\t%s\n", sub.Name, b)
	}
	c.cur.Store(&inflight{sub.Name, key, cs, time.Now()})
	f := sub.Exec(cs)
	c.cur.Store(nil)
	if f == nil {
		return true
	}
	c.res.ViolationsN++
	if len(c.res.Violations) >= c.maxViol {
		return true
	}
	// confirm: the same case must fail the same way 5 more times
	same := 0
	var last *Fail
	for i := 0; i < 5; i++ {
		g := sub.Exec(cs)
		if g != nil && g.Observed == f.Observed {
			same++
		}
		last = g
	}
	raw, _ := json.Marshal(cs)
	v := &Violation{Property: c.Check.ID, Sub: sub.Name, Key: key, Case: raw,
		Expected: f.Expected, Observed: f.Observed, Reproduced: same}
	if same == 5 {
		c.res.Violations = append(c.res.Violations, v)
	} else {
		if last != nil {
			v.Observed += " || later: " + last.Observed
		} else {
			v.Observed += " || later: pass"
		}
		c.res.Unstable = append(c.res.Unstable, v)
	}
	return true
}

// Guard runs f and converts a panic into a *Fail (oracle "never panics").
func Guard(f func() *Fail) (res *Fail) {
	defer func() {
		if r := recover(); r != nil {
			st := debug.Stack()
			res = &Fail{Expected: "no panic", Observed: fmt.Sprintf("panic: %v @ %s", r, panicSite(st))}
		}
	}()
	return f()
}

// Samples cap etc.
func Trunc(s string, n int) string {
	if len(s) <= n {
		return s
	}
	return s[:n] + fmt.Sprintf("...(%d bytes)", len(s))
}

// Commands lets packages add auxiliary sub-commands to the binary.
var Commands = map[string]func(args []string) int{}

// Cur is the worker's context (a worker is single-threaded); oracles use it to
// tally what they covered inside one case.
var Cur *Ctx

func Tally(name string, n int64) {
	if Cur != nil {
		Cur.res.Counters[name] += n
	}
}
func TallyOutcome(class string) {
	if Cur != nil {
		Cur.res.Outcomes[class]++
	}
}
func TallyNontrivial() {
	if Cur != nil {
		Cur.res.Nontrivial++
	}
}

// Heartbeat tells the hang watchdog that the case in flight is making progress
// (long explorations inside one case call it between executions).
func Heartbeat() {
	if Cur == nil {
		return
	}
	if fl := Cur.cur.Load(); fl != nil {
		Cur.cur.Store(&inflight{fl.sub, fl.key, fl.cs, time.Now()})
	}
}
