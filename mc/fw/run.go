package fw

import (
	"bufio"
	"encoding/json"
	"fmt"
	"os"
	"os/exec"
	"path/filepath"
	"regexp"
	"runtime"
	"sort"
	"strconv"
	"strings"
	"sync"
	"time"
)

var VerifDir = "/verif"

func init() {
	if d := os.Getenv("VERIF_DIR"); d != "" {
		VerifDir = d
	}
}

func WorkDir() string {
	if d := os.Getenv("VERIF_WORK"); d != "" {
		return d
	}
	return filepath.Join(VerifDir, ".work")
}

// OutDir is where evidence/ and replays/ are written (VERIF_OUT overrides it for
// development runs against a scratch checkout).
func OutDir() string {
	if d := os.Getenv("VERIF_OUT"); d != "" {
		return d
	}
	return VerifDir
}

// RepoDir is the checkout under test.
func RepoDir() string {
	if d := os.Getenv("VERIF_REPO"); d != "" {
		return d
	}
	return "/repo"
}

var siteRe = regexp.MustCompile(`(?m)^(github\.com/wkhere/bcl[^\s(]*)\(`)

func panicSite(stack []byte) string {
	m := siteRe.FindAllSubmatch(stack, 3)
	var s []string
	for _, x := range m {
		s = append(s, string(x[1]))
	}
	if len(s) == 0 {
		return "?"
	}
	return strings.Join(s, "<")
}

// ---------------------------------------------------------------- worker side

func newCtx(chk *Check, tier string, shard, n int) *Ctx {
	seed, _ := strconv.ParseInt(os.Getenv("VERIF_SEED"), 10, 64)
	budget := chk.BudgetQuick
	if tier != "quick" {
		budget = chk.BudgetThorough
	}
	if budget == 0 {
		budget = 120
	}
	if s := os.Getenv("VERIF_BUDGET_S"); s != "" {
		if b, err := strconv.Atoi(s); err == nil {
			budget = b
		}
	}
	return &Ctx{
		Check: chk, Tier: tier, Seed: seed, Shard: shard, NShards: n,
		Deadline: time.Now().Add(time.Duration(budget) * time.Second),
		res: &WorkerResult{Shard: shard, Counters: map[string]int64{}, Outcomes: map[string]int64{},
			Bounds: map[string]any{}},
		seen:    map[uint64]struct{}{},
		skip:    map[string]bool{},
		maxViol: 20,
	}
}

// WorkerMain runs one shard and writes the result file. Exit status 0 always when
// it finishes (violations are data); 3 on a hang.
func WorkerMain(id, tier string, shard, n int, out string, traceTo string, skipFile string) {
	chk := Lookup(id)
	if chk == nil {
		fmt.Fprintln(os.Stderr, "unknown check", id)
		os.Exit(2)
	}
	c := newCtx(chk, tier, shard, n)
	Cur = c
	if traceTo != "" {
		f, err := os.OpenFile(traceTo, os.O_WRONLY|os.O_CREATE|os.O_TRUNC|os.O_SYNC, 0o644)
		if err != nil {
			fmt.Fprintln(os.Stderr, err)
			os.Exit(2)
		}
		c.trace = f
	}
	if skipFile != "" {
		b, _ := os.ReadFile(skipFile)
		var ks []string
		json.Unmarshal(b, &ks)
		for _, k := range ks {
			c.skip[k] = true
		}
	}
	write := func() {
		b, _ := json.Marshal(c.res)
		tmp := out + ".tmp"
		os.WriteFile(tmp, b, 0o644)
		os.Rename(tmp, out)
	}
	// watchdog: a case in flight for more than 60 s is a hang
	go func() {
		for {
			time.Sleep(2 * time.Second)
			if fl := c.cur.Load(); fl != nil && time.Since(fl.start) > hangLimit() {
				raw, _ := json.Marshal(fl.cs)
				// report from here; c.res is owned by the main goroutine which is stuck
				r := &WorkerResult{Shard: shard, HungKey: fl.key, HungSub: fl.sub, HungCase: raw}
				b, _ := json.Marshal(r)
				os.WriteFile(out+".hang", b, 0o644)
				os.Exit(3)
			}
		}
	}()
	chk.Run(c)
	c.res.Done = true
	write()
}

func hangLimit() time.Duration {
	if s := os.Getenv("VERIF_HANG_S"); s != "" {
		if n, err := strconv.Atoi(s); err == nil {
			return time.Duration(n) * time.Second
		}
	}
	return 60 * time.Second
}

// ---------------------------------------------------------------- parent side

type Merged struct {
	Check       *Check
	Tier        string
	Evaluations int64
	Distinct    int64
	Nontrivial  int64
	Counters    map[string]int64
	Outcomes    map[string]int64
	Samples     []any
	Violations  []*Violation
	Unstable    []*Violation
	ViolationsN int64
	CapsHit     []string
	Bounds      map[string]any
	DeadlineHit bool
	Infra       []string
	Extra       map[string]any
}

func CheckMain(id, tier string) int {
	start := time.Now()
	chk := Lookup(id)
	if chk == nil {
		fmt.Fprintln(os.Stderr, "INFRA: unknown check", id)
		return 2
	}
	n := chk.Workers
	if n == 0 {
		n = runtime.NumCPU()
		if s := os.Getenv("VERIF_WORKERS"); s != "" {
			if k, err := strconv.Atoi(s); err == nil && k > 0 {
				n = k
			}
		}
	}
	dir := filepath.Join(WorkDir(), "run", id+"-"+tier)
	os.RemoveAll(dir)
	os.MkdirAll(dir, 0o755)
	defer os.RemoveAll(dir)

	m := &Merged{Check: chk, Tier: tier, Counters: map[string]int64{}, Outcomes: map[string]int64{},
		Bounds: map[string]any{}, Extra: map[string]any{}}
	var mu sync.Mutex
	var wg sync.WaitGroup
	for k := 0; k < n; k++ {
		wg.Add(1)
		go func(k int) {
			defer wg.Done()
			res, crashes, infra := runShard(id, tier, k, n, dir)
			mu.Lock()
			defer mu.Unlock()
			m.Infra = append(m.Infra, infra...)
			m.Violations = append(m.Violations, crashes...)
			m.ViolationsN += int64(len(crashes))
			if res != nil {
				m.merge(res)
			}
		}(k)
	}
	wg.Wait()

	if chk.Finish != nil {
		v := chk.Finish(m)
		if m.DeadlineHit {
			// the time budget ended the enumeration early (a loaded machine): the vacuity guards judge a
			// completed run only; what was not reached is reported as a cap (exhaustive=false), not as a failure
			for _, s := range v {
				m.CapsHit = append(m.CapsHit, "not judged, the deadline ended the run early: "+s)
			}
		} else {
			m.Infra = append(m.Infra, v...)
		}
	}
	return m.report(time.Since(start).Seconds())
}

func (m *Merged) merge(r *WorkerResult) {
	m.Evaluations += r.Evaluations
	m.Distinct += r.Distinct
	m.Nontrivial += r.Nontrivial
	for k, v := range r.Counters {
		m.Counters[k] += v
	}
	for k, v := range r.Outcomes {
		m.Outcomes[k] += v
	}
	for _, s := range r.Samples {
		if len(m.Samples) < 8 {
			m.Samples = append(m.Samples, s)
		}
	}
	m.Violations = append(m.Violations, r.Violations...)
	m.Unstable = append(m.Unstable, r.Unstable...)
	m.ViolationsN += r.ViolationsN
	for _, c := range r.CapsHit {
		dup := false
		for _, d := range m.CapsHit {
			if d == c {
				dup = true
			}
		}
		if !dup {
			m.CapsHit = append(m.CapsHit, c)
		}
	}
	for k, v := range r.Bounds {
		m.Bounds[k] = v
	}
	if r.DeadlineHit {
		m.DeadlineHit = true
	}
	m.Infra = append(m.Infra, r.InfraErrors...)
}

// runShard runs one worker; when it dies it re-runs the shard in trace mode to
// attribute the death to the case in flight, records that as a crash violation
// and continues with that case skipped.
func runShard(id, tier string, k, n int, dir string) (*WorkerResult, []*Violation, []string) {
	out := filepath.Join(dir, fmt.Sprintf("w%02d.json", k))
	tracef := filepath.Join(dir, fmt.Sprintf("w%02d.trace", k))
	skipf := filepath.Join(dir, fmt.Sprintf("w%02d.skip", k))
	logf := filepath.Join(dir, fmt.Sprintf("w%02d.log", k))
	var crashes []*Violation
	var infra []string
	var skips []string
	trace := false
	for attempt := 0; attempt < 8; attempt++ {
		os.Remove(out)
		os.Remove(out + ".hang")
		args := []string{"worker", id, tier, strconv.Itoa(k), strconv.Itoa(n), out}
		if trace {
			args = append(args, tracef)
		} else {
			args = append(args, "")
		}
		if len(skips) > 0 {
			b, _ := json.Marshal(skips)
			os.WriteFile(skipf, b, 0o644)
			args = append(args, skipf)
		} else {
			args = append(args, "")
		}
		cmd := exec.Command(os.Args[0], args...)
		lf, _ := os.Create(logf)
		cmd.Stdout = lf
		cmd.Stderr = lf
		cmd.Env = append(os.Environ(), "GOMAXPROCS=1")
		err := cmd.Run()
		lf.Close()
		if b, rerr := os.ReadFile(out); rerr == nil {
			var r WorkerResult
			if json.Unmarshal(b, &r) == nil && r.Done {
				return &r, crashes, infra
			}
		}
		// died or hung
		if hb, herr := os.ReadFile(out + ".hang"); herr == nil {
			var r WorkerResult
			json.Unmarshal(hb, &r)
			crashes = append(crashes, &Violation{Property: id, Sub: r.HungSub, Key: r.HungKey, Case: r.HungCase,
				Expected: "returns in bounded time", Observed: "hang: case did not return within the watchdog limit", Crash: true, Reproduced: 1})
			skips = append(skips, r.HungSub+"\x00"+r.HungKey)
			continue
		}
		if !trace {
			trace = true // re-run with tracing to find the culprit
			continue
		}
		// trace mode: last line of trace file is the case in flight
		sub, raw := lastTraceLine(tracef)
		logtail := tail(logf, 2000)
		if sub == "" {
			infra = append(infra, fmt.Sprintf("worker %d died before its first case: %v: %s", k, err, logtail))
			return nil, crashes, infra
		}
		chk := Lookup(id)
		var key string
		for _, s := range chk.Subs {
			if s.Name == sub {
				cs := s.New()
				if json.Unmarshal(raw, cs) == nil {
					key = cs.Key()
				}
			}
		}
		crashes = append(crashes, &Violation{Property: id, Sub: sub, Key: key, Case: raw,
			Expected: "process survives (no panic in a library goroutine)", Observed: "worker process died: " + crashSummary(logtail), Crash: true, Reproduced: 1})
		skips = append(skips, sub+"\x00"+key)
	}
	infra = append(infra, fmt.Sprintf("worker %d: gave up after 8 restarts (each a crash or hang recorded above)", k))
	return nil, crashes, infra
}

func crashSummary(log string) string {
	for _, l := range strings.Split(log, "\n") {
		if strings.HasPrefix(l, "panic:") || strings.HasPrefix(l, "fatal error:") {
			site := panicSite([]byte(log))
			return l + " @ " + site
		}
	}
	return Trunc(log, 200)
}

func lastTraceLine(path string) (string, json.RawMessage) {
	f, err := os.Open(path)
	if err != nil {
		return "", nil
	}
	defer f.Close()
	sc := bufio.NewScanner(f)
	sc.Buffer(make([]byte, 1<<20), 1<<26)
	var last string
	for sc.Scan() {
		if t := sc.Text(); t != "" {
			last = t
		}
	}
	i := strings.IndexByte(last, '\t')
	if i < 0 {
		return "", nil
	}
	return last[:i], json.RawMessage(last[i+1:])
}

func tail(path string, n int) string {
	b, _ := os.ReadFile(path)
	if len(b) > n {
		// keep the head: panic message comes first
		return string(b[:n])
	}
	return string(b)
}

// ---------------------------------------------------------------- known findings

type known struct {
	property, match, text string
}

func loadKnown() []known {
	b, err := os.ReadFile(filepath.Join(VerifDir, "KNOWN_FINDINGS.txt"))
	if err != nil {
		return nil
	}
	var ks []known
	for _, l := range strings.Split(string(b), "\n") {
		l = strings.TrimSpace(l)
		if !strings.HasPrefix(l, "known:") {
			continue
		}
		f := strings.Fields(l[len("known:"):])
		var k known
		var rest []string
		for _, w := range f {
			switch {
			case strings.HasPrefix(w, "property="):
				k.property = w[len("property="):]
			case strings.HasPrefix(w, "match="):
				k.match = w[len("match="):]
			default:
				rest = append(rest, w)
			}
		}
		k.text = strings.Join(rest, " ")
		if k.property != "" && k.match != "" {
			ks = append(ks, k)
		}
	}
	return ks
}

// ---------------------------------------------------------------- reporting

func (m *Merged) report(wall float64) int {
	id := m.Check.ID
	kn := loadKnown()
	var fresh []*Violation
	knownSeen := map[string]bool{}
	for _, v := range m.Violations {
		matched := false
		for _, k := range kn {
			if k.property == id && k.match == v.Sig() {
				matched = true
				if !knownSeen[k.match] {
					knownSeen[k.match] = true
					fmt.Printf("KNOWN-FINDING: property=%s %s [%s %s]\n", id, k.text, v.Sub, Trunc(v.Key, 80))
				}
			}
		}
		if !matched {
			fresh = append(fresh, v)
		}
	}
	sort.Slice(fresh, func(i, j int) bool {
		if len(fresh[i].Key) != len(fresh[j].Key) {
			return len(fresh[i].Key) < len(fresh[j].Key)
		}
		return fresh[i].Key < fresh[j].Key
	})

	// cases that killed or hung their worker were executed too
	if n := int64(len(m.Violations)); m.Evaluations < n {
		m.Evaluations = n
	}
	if m.Distinct < m.Evaluations && m.Distinct == 0 {
		m.Distinct = m.Evaluations
	}
	exhaustive := !m.DeadlineHit && len(m.CapsHit) == 0
	cov := map[string]any{
		"evaluations":                   m.Evaluations,
		"distinct_nontrivial":           m.Nontrivial,
		"distinct_cases":                m.Distinct,
		"rule":                          m.Check.Rule,
		"samples":                       m.Samples,
		"exhaustive":                    exhaustive,
		"caps_hit":                      m.CapsHit,
		"deadline_hit":                  m.DeadlineHit,
		"bounds":                        m.Bounds,
		"counters":                      m.Counters,
		"distinct_outcomes":             len(m.Outcomes),
		"outcomes":                      topOutcomes(m.Outcomes, 40),
		"violations_total":              m.ViolationsN,
		"known_findings_matched":        len(knownSeen),
		"states":                        m.Counters["states"],
		"transitions":                   m.Counters["transitions"],
		"traces_validated_against_impl": m.Counters["traces_validated"],
	}
	if m.Counters["states"] == 0 {
		// every executed case is a state of the enumerated space; every execution on
		// the implementation is a validated trace
		cov["states"] = m.Distinct
		cov["transitions"] = m.Evaluations
		cov["traces_validated_against_impl"] = m.Evaluations
	}
	for k, v := range m.Extra {
		cov[k] = v
	}
	if len(m.Samples) == 0 {
		cov["samples"] = []any{"(no case executed)"}
	}
	seed, _ := strconv.ParseInt(os.Getenv("VERIF_SEED"), 10, 64)
	if m.Check.Assumptions == nil {
		m.Check.Assumptions = []string{"reference model mc/ref encodes the documented language (DESIGN.md appendix A)"}
	}
	ev := map[string]any{
		"property_id": id,
		"tier":        m.Tier,
		"seed":        seed,
		"level":       m.Check.Level,
		"coverage":    cov,
		"assumptions": m.Check.Assumptions,
		"wall_s":      wall,
		"violations":  len(fresh),
	}
	os.MkdirAll(filepath.Join(OutDir(), "evidence"), 0o755)
	b, _ := json.MarshalIndent(ev, "", " ")
	os.WriteFile(filepath.Join(OutDir(), "evidence", id+".json"), append(b, '\n'), 0o644)

	fmt.Printf("%s %s: evaluations=%d distinct=%d nontrivial=%d outcomes=%d exhaustive=%v wall=%.1fs violations=%d (known %d) unstable=%d\n",
		id, m.Tier, m.Evaluations, m.Distinct, m.Nontrivial, len(m.Outcomes), exhaustive, wall, len(fresh), len(knownSeen), len(m.Unstable))
	for _, c := range m.CapsHit {
		fmt.Printf("  cap: %s\n", c)
	}
	if len(fresh) > 0 {
		os.MkdirAll(filepath.Join(OutDir(), "replays"), 0o755)
		shown := 0
		for _, v := range fresh {
			if shown >= 10 {
				break
			}
			shown++
			p := filepath.Join(OutDir(), "replays", id+"-"+v.Sig()+".json")
			vb, _ := json.MarshalIndent(v, "", " ")
			os.WriteFile(p, append(vb, '\n'), 0o644)
			fmt.Printf("VIOLATION property=%s replay=%s\n", id, p)
			fmt.Printf("  check=%s key=%s\n  expected: %s\n  observed: %s\n", v.Sub, Trunc(v.Key, 200), Trunc(v.Expected, 300), Trunc(v.Observed, 600))
		}
		if len(fresh) > shown {
			fmt.Printf("  ... and %d more violations (total incl. unconfirmed duplicates: %d)\n", len(fresh)-shown, m.ViolationsN)
		}
		return 1
	}
	if len(m.Unstable) > 0 {
		for i, v := range m.Unstable {
			if i >= 5 {
				break
			}
			fmt.Fprintf(os.Stderr, "UNSTABLE: property=%s check=%s key=%s observed=%s\n", id, v.Sub, Trunc(v.Key, 200), Trunc(v.Observed, 400))
		}
		return 2
	}
	if len(m.Infra) > 0 {
		for i, s := range m.Infra {
			if i >= 10 {
				break
			}
			fmt.Fprintf(os.Stderr, "INFRA: %s\n", s)
		}
		return 2
	}
	return 0
}

func topOutcomes(m map[string]int64, n int) map[string]int64 {
	type kv struct {
		k string
		v int64
	}
	var s []kv
	for k, v := range m {
		s = append(s, kv{k, v})
	}
	sort.Slice(s, func(i, j int) bool { return s[i].v > s[j].v || s[i].v == s[j].v && s[i].k < s[j].k })
	out := map[string]int64{}
	for i, x := range s {
		if i >= n {
			break
		}
		out[x.k] = x.v
	}
	return out
}

// ReplayMain re-executes the case of one replay file without the explorer.
func ReplayMain(path string) int {
	b, err := os.ReadFile(path)
	if err != nil {
		fmt.Fprintln(os.Stderr, err)
		return 2
	}
	var v Violation
	if err := json.Unmarshal(b, &v); err != nil {
		fmt.Fprintln(os.Stderr, err)
		return 2
	}
	chk := Lookup(v.Property)
	if chk == nil {
		fmt.Fprintln(os.Stderr, "unknown property", v.Property)
		return 2
	}
	for _, s := range chk.Subs {
		if s.Name != v.Sub {
			continue
		}
		cs := s.New()
		if err := json.Unmarshal(v.Case, cs); err != nil {
			fmt.Fprintln(os.Stderr, err)
			return 2
		}
		f := s.Exec(cs)
		if f == nil {
			fmt.Printf("replay %s: case passes now\n", path)
			return 0
		}
		fmt.Printf("VIOLATION property=%s replay=%s\n  expected: %s\n  observed: %s\n", v.Property, path, f.Expected, f.Observed)
		return 1
	}
	fmt.Fprintln(os.Stderr, "unknown sub-check", v.Sub)
	return 2
}
