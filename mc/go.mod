module verif/mc

go 1.22.0

toolchain go1.23.5

require github.com/wkhere/bcl v0.0.0

require (
	github.com/mohae/uvarint v0.0.0-20160208145430-c3f9e62bf2b0 // indirect
	golang.org/x/tools v0.29.0
)

replace github.com/wkhere/bcl => /repo
