export GOFLAGS=-mod=mod GOPROXY=off GOSUMDB=off GOTOOLCHAIN=local
export GOCACHE="$(pwd)/.work/gocache"
export VERIF_DIR="$(pwd)"
