#!/bin/sh
# usage: tools/with_patch.sh <patch-file|revert:COMMIT> <check-id>...   — applies a change to /repo, runs the repo's own
# tests and the given checks (quick), and restores /repo. For demonstrating detection only.
set -u
spec="$1"; shift
cd /repo || exit 2
if [ -n "$(git status --porcelain)" ]; then echo "/repo not clean"; exit 2; fi
case "$spec" in
  revert:*) git revert -n "${spec#revert:}" >/dev/null 2>&1 || { echo "revert failed"; git revert --abort 2>/dev/null; git checkout -- .; exit 2; } ;;
  *) git apply "$spec" || { echo "patch does not apply"; exit 2; } ;;
esac
export GOFLAGS=-mod=mod GOPROXY=off GOSUMDB=off GOTOOLCHAIN=local
if go build ./... 2>/dev/null && go test -vet=off -count=1 ./... >/tmp/wp_test.log 2>&1; then echo "repo tests: PASS"; else echo "repo tests: FAIL"; tail -5 /tmp/wp_test.log; fi
cd /verif
for id in "$@"; do
  VERIF_HANG_S=${VERIF_HANG_S:-20} ./run.sh "$id" quick 2>&1 | grep -a -E "^(C[0-9]+ |VIOLATION|KNOWN|INFRA|UNSTABLE)" | head -4
  echo "  -> $id exit=$?"
done
cd /repo && git revert --abort 2>/dev/null; git reset -q --hard HEAD; git status --porcelain | head -3
rm -f /verif/replays/*.json
