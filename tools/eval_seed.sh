#!/bin/bash
# usage: tools/eval_seed.sh <outdir e.g. /tmp/seed-out/C07> <k> <name> <check-ids...>
# 1. confirms the seeded change in a scratch worktree (outside /repo and /verif): applies, builds,
#    the repository's own tests pass, the demonstration fails with it and passes without it;
# 2. applies it to /repo, runs the given checks (quick), undoes it;
# 3. stores it under /verif/seeded/<name>/ with meta.json.
set -u
out="$1"; k="$2"; name="$3"; shift 3
export GOFLAGS=-mod=mod GOPROXY=off GOSUMDB=off GOTOOLCHAIN=local
patch="$out/patch$k.diff"
[ -f "$patch" ] || { echo "no $patch"; exit 2; }
wt=/tmp/evalwt-$$
git -C /repo worktree add -q --detach "$wt" HEAD || exit 2
cleanup() { git -C /repo worktree remove --force "$wt" 2>/dev/null; rm -rf "$wt"; }
trap cleanup EXIT
demo=""
if [ -f "$out/demo${k}_test.go" ]; then demo="$out/demo${k}_test.go"; fi
cd "$wt"
run_demo() {
  if [ -n "$demo" ]; then
    cp "$demo" "$wt/zz_seed_demo_test.go"
    # run only the tests defined in the demo file
    names=$(grep -oE '^func (Test[A-Za-z0-9_]+)' "$demo" | awk '{print $2}' | paste -sd'|')
    timeout 300 go test -count=1 -run "^($names)\$" . >/tmp/evalseed_demo.log 2>&1; rc=$?
    rm -f "$wt/zz_seed_demo_test.go"
    return $rc
  elif [ -d "$out/demo$k" ]; then
    mkdir -p "$wt/zz_seed_demo" && cp "$out/demo$k"/*.go "$wt/zz_seed_demo/"
    timeout 300 go run ./zz_seed_demo >/tmp/evalseed_demo.log 2>&1; rc=$?
    rm -rf "$wt/zz_seed_demo"
    return $rc
  fi
  return 99
}
run_demo; base=$?
git apply "$patch" || { echo "RESULT $name: patch does not apply"; exit 1; }
if go build ./... >/tmp/evalseed_build.log 2>&1; then builds=yes; else builds=no; fi
if timeout 900 go test -vet=off -count=1 ./... >/tmp/evalseed_tests.log 2>&1; then tests=pass; else tests=FAIL; fi
run_demo; mut=$?
echo "CONFIRM $name: builds=$builds repo-tests=$tests demo-without=$base demo-with=$mut"
ok=no
if [ "$builds" = yes ] && [ "$tests" = pass ] && [ "$base" = 0 ] && [ "$mut" != 0 ] && [ "$mut" != 99 ]; then ok=yes; fi
cd /verif
caught=""; missed=""
if [ "$ok" = yes ]; then
  if [ -n "$(git -C /repo status --porcelain)" ]; then echo "/repo not clean"; exit 2; fi
  git -C /repo apply "$patch"
  for id in "$@"; do
    res=$(VERIF_HANG_S=${VERIF_HANG_S:-25} timeout 1500 ./run.sh "$id" quick 2>&1 | grep -a -E "^(VIOLATION|INFRA|UNSTABLE)" | head -1)
    if echo "$res" | grep -q "^VIOLATION"; then caught="$caught $id"; else missed="$missed $id"; [ -n "$res" ] && echo "   $id: $res"; fi
  done
  git -C /repo checkout -- . ; git -C /repo clean -fdq
  rm -f /verif/replays/*.json
fi
echo "RESULT $name: valid=$ok caught_by=[$caught ] not_caught_by=[$missed ]"
mkdir -p "/verif/seeded/$name"
cp "$patch" "/verif/seeded/$name/patch.diff"
[ -n "$demo" ] && cp "$demo" "/verif/seeded/$name/demo_test.go.txt"
[ -d "$out/demo$k" ] && cp -r "$out/demo$k" "/verif/seeded/$name/demo"
[ -f "$out/notes$k.md" ] && cp "$out/notes$k.md" "/verif/seeded/$name/notes.md"
python3 - "$name" "$ok" "$builds" "$tests" "$base" "$mut" "$caught" "$missed" <<'PY'
import json,sys
name,ok,builds,tests,base,mut,caught,missed=sys.argv[1:9]
meta={"name":name,"breaks_property":name.split('-')[0],"valid":ok=="yes","builds":builds=="yes","repo_tests":tests,
 "demo_exit_without_change":int(base),"demo_exit_with_change":int(mut),
 "checks_run_quick":(caught+" "+missed).split(),"caught_by":caught.split(),"not_caught_by":missed.split(),
 "needs_to_manifest":"see notes.md","how_confirmed":"tools/eval_seed.sh: scratch worktree outside /repo and /verif; go build; go test ./... (repository suite, unedited); demo test run with and without the patch; then patch applied to /repo, ./run.sh <id> quick for each listed check, git checkout to undo"}
json.dump(meta,open("/verif/seeded/%s/meta.json"%name,"w"),indent=1)
PY
