#!/bin/bash
# usage: tools/eval_seed.sh <outdir e.g. /tmp/seed-out/C07> <k> <name> <check-ids...>
# 1. confirms the seeded change in a scratch worktree (outside /repo and /verif): applies, builds,
#    the repository's own tests pass, the demonstration fails with it and passes without it;
# 2. runs the given checks (quick) against that scratch worktree (VERIF_REPO), so /repo stays untouched;
# 3. stores the change under /verif/seeded/<name>/ with meta.json, removes the scratch worktree.
set -u
out="$1"; k="$2"; name="$3"; shift 3
export GOFLAGS=-mod=mod GOPROXY=off GOSUMDB=off GOTOOLCHAIN=local
patch="$out/patch$k.diff"
[ -f "$patch" ] || { echo "no $patch"; exit 2; }
wt=/tmp/evalwt-$name
rm -rf "$wt" "$wt-work" "$wt-out"; git -C /repo worktree prune
git -C /repo worktree add -q --detach "$wt" HEAD || exit 2
cleanup() { git -C /repo worktree remove --force "$wt" 2>/dev/null; rm -rf "$wt" "$wt-work" "$wt-out"; }
trap cleanup EXIT
demo=""
if [ -f "$out/demo${k}_test.go" ]; then demo="$out/demo${k}_test.go"; fi
cd "$wt"
run_demo() {
  if [ -n "$demo" ]; then
    ddir="."
    if grep -q '^package main' "$demo"; then ddir="./cmd/bcl"; fi
    cp "$demo" "$wt/$ddir/zz_seed_demo_test.go"
    names=$(grep -oE '^func (Test[A-Za-z0-9_]+)' "$demo" | awk '{print $2}' | paste -sd'|')
    timeout 600 go test ${DEMO_FLAGS:-} -vet=off -count=1 -run "^($names)\$" "$ddir" >"$wt-demo.log" 2>&1; rc=$?
    rm -f "$wt/$ddir/zz_seed_demo_test.go"
    return $rc
  elif [ -d "$out/demo$k" ]; then
    mkdir -p "$wt/zz_seed_demo" && cp "$out/demo$k"/*.go "$wt/zz_seed_demo/"
    timeout 600 go run ./zz_seed_demo >"$wt-demo.log" 2>&1; rc=$?
    rm -rf "$wt/zz_seed_demo"
    return $rc
  fi
  return 99
}
run_demo; base=$?
git apply "$patch" || { echo "RESULT $name: patch does not apply"; exit 1; }
if go build ./... >"$wt-build.log" 2>&1; then builds=yes; else builds=no; fi
if timeout 900 go test -vet=off -count=1 ./... >"$wt-tests.log" 2>&1; then tests=pass; else tests=FAIL; fi
run_demo; mut=$?
rm -f "$wt-demo.log" "$wt-build.log" "$wt-tests.log"
echo "CONFIRM $name: builds=$builds repo-tests=$tests demo-without=$base demo-with=$mut"
ok=no
if [ "$builds" = yes ] && [ "$tests" = pass ] && [ "$base" = 0 ] && [ "$mut" != 0 ] && [ "$mut" != 99 ]; then ok=yes; fi
cd /verif
caught=""; missed=""
if [ "$ok" = yes ]; then
  for id in "$@"; do
    res=$(VERIF_REPO="$wt" VERIF_WORK="$wt-work" VERIF_OUT="$wt-out" VERIF_HANG_S=${VERIF_HANG_S:-25} VERIF_WORKERS=${VERIF_WORKERS:-8} timeout 1500 ./run.sh "$id" quick 2>&1 | grep -a -E "^(VIOLATION|INFRA|UNSTABLE)" | head -1)
    if echo "$res" | grep -q "^VIOLATION"; then caught="$caught $id"; else missed="$missed $id"; [ -n "$res" ] && echo "   $id: $res"; fi
  done
fi
echo "RESULT $name: valid=$ok caught_by=[$caught ] not_caught_by=[$missed ]"
mkdir -p "/verif/seeded/$name"
cp "$patch" "/verif/seeded/$name/patch.diff"
[ -n "$demo" ] && cp "$demo" "/verif/seeded/$name/demo_test.go.txt"
[ -d "$out/demo$k" ] && cp -r "$out/demo$k" "/verif/seeded/$name/demo"
[ -f "$out/notes$k.md" ] && cp "$out/notes$k.md" "/verif/seeded/$name/notes.md"
python3 - "$name" "$ok" "$builds" "$tests" "$base" "$mut" "$caught" "$missed" <<'PY'
import json,sys,os
name,ok,builds,tests,base,mut,caught,missed=sys.argv[1:9]
p="/verif/seeded/%s/meta.json"%name
old=json.load(open(p)) if os.path.exists(p) else {}
c=set(old.get("caught_by",[]))|set(caught.split()); m=(set(old.get("not_caught_by",[]))|set(missed.split()))-set(caught.split())
# a later run supersedes an earlier verdict for the same check
for x in missed.split(): c.discard(x); m.add(x)
for x in caught.split(): m.discard(x); c.add(x)
meta={"name":name,"breaks_property":name.split('-')[0],"valid":ok=="yes","builds":builds=="yes","repo_tests":tests,
 "demo_exit_without_change":int(base),"demo_exit_with_change":int(mut),
 "caught_by":sorted(c),"not_caught_by":sorted(m),
 "needs_to_manifest":"see notes.md","how_confirmed":"tools/eval_seed.sh: scratch git worktree of /repo outside /repo and /verif; git apply; go build ./...; go test ./... (repository suite, unedited) passes; the demonstration test is run without the change (must pass) and with it (must fail); then ./run.sh <id> quick for each listed check with VERIF_REPO pointing at the scratch worktree; worktree removed afterwards"}
json.dump(meta,open(p,"w"),indent=1)
PY
