#!/usr/bin/env python3
# prints DESIGN.md table rows for the seeded changes given on the command line (or all), from meta.json + notes.md
import json,glob,os,re,sys
names=sys.argv[1:] or sorted(os.path.basename(d.rstrip('/')) for d in glob.glob('/verif/seeded/*/'))
for n in names:
    d='/verif/seeded/%s/'%n
    m=json.load(open(d+'meta.json'))
    what=''
    if os.path.exists(d+'notes.md'):
        first=open(d+'notes.md').readline().strip().lstrip('# ').strip()
        first=re.sub(r'^C\d+\s+seed(ed)?\s+defect\s+\d+\s*[:—–-]*\s*','',first,flags=re.I)
        what=first.replace('|','/')
    if m.get('needs_to_manifest','').startswith('see notes') and os.path.exists(d+'notes.md'):
        body=open(d+'notes.md').read()
        body=re.sub(r'\s+',' ',body.split('\n',1)[1] if '\n' in body else body).strip()
        m['needs_to_manifest']=body[:900]
        json.dump(m,open(d+'meta.json','w'),indent=1)
    tag=n if m.get('valid') else n+' (invalid)'
    print('| %s | %s | %s | %s |'%(tag,what,' '.join(m['caught_by']) or '–',' '.join(m['not_caught_by']) or '–'))
